# Oracle B of C05: execute a program's original code and its normalized re-encoding under sys.settrace.
#   python exec_runner.py <source file> <optimize>
# Prints one JSON line per phase: {"phase": "original"|"normalized", "stdout":..., "exc":..., "trace":[...]}
from __future__ import print_function

import io
import json
import os
import sys

sys.dont_write_bytecode = True
HERE = os.path.dirname(os.path.abspath(__file__))
sys.path.insert(0, HERE)
MAX_EVENTS = 150000


def run(code, fn):
    log = []

    def tracer(frame, event, arg):
        if frame.f_code.co_filename != fn:
            return None
        if len(log) < MAX_EVENTS:
            log.append((frame.f_code.co_name, event, frame.f_lineno))
        return tracer
    buf = io.StringIO()
    real = sys.stdout
    exc = None
    g = {"__name__": "__main__", "__builtins__": __builtins__}
    sys.stdout = buf
    try:
        sys.settrace(tracer)
        try:
            exec(code, g)
        finally:
            sys.settrace(None)
    except BaseException as e:
        import traceback
        tb = [(f.name, f.lineno) for f in traceback.extract_tb(e.__traceback__) if f.filename == fn]
        exc = [type(e).__name__, repr(e.args)[:300], tb]
    finally:
        sys.stdout = real
    return {"stdout": buf.getvalue(), "exc": exc, "trace": log}


def main():
    import warnings
    path, opt = sys.argv[1], int(sys.argv[2])
    with open(path, encoding="utf-8", errors="surrogatepass") as f:
        src = f.read()
    fn = "<prog>"
    with warnings.catch_warnings():
        warnings.simplefilter("ignore")
        code = compile(src, fn, "exec", dont_inherit=True, optimize=opt)
    r = run(code, fn)
    r["phase"] = "original"
    sys.stdout.write(json.dumps(r) + "\n")
    sys.stdout.flush()
    import hcommon as _H
    CodeData = _H.lib("CodeData")
    try:
        ncode = CodeData.from_code(code).normalize().to_code()
    except Exception as e:
        sys.stdout.write(json.dumps({"phase": "normalize-failed", "error": "%s: %s" % (type(e).__name__, e)}) + "\n")
        return
    # static facts for the known-finding classifier
    import hcommon as H
    import sym
    zs = 0
    for c, _d in H.iter_code(code):
        zs += len(sym.lnotab_zero_sum_addresses(c))
    sys.stdout.write(json.dumps({"phase": "static", "zero_sum_addresses": zs}) + "\n")
    sys.stdout.flush()
    r = run(ncode, fn)
    r["phase"] = "normalized"
    sys.stdout.write(json.dumps(r) + "\n")


main()
