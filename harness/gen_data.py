# W5: hand-built well-formed CodeData graphs (no private override fields); W6: edits of decoded data.
# Stdlib only, 3.7+.  Opcodes come from the running interpreter's own dis tables.
from __future__ import print_function

import dis

import hcommon as H
import gen_const

OPMAP = dis.opmap


def _have(*names):
    return [n for n in names if n in OPMAP]


NOARG = _have("NOP", "POP_TOP", "DUP_TOP", "ROT_TWO", "ROT_THREE", "UNARY_NEGATIVE", "UNARY_NOT", "BINARY_ADD", "BINARY_SUBTRACT",
              "BINARY_SUBSCR", "GET_ITER", "RETURN_VALUE", "YIELD_VALUE", "INPLACE_ADD", "STORE_SUBSCR")
NAMEOPS = _have("LOAD_NAME", "STORE_NAME", "LOAD_GLOBAL", "STORE_GLOBAL", "LOAD_ATTR", "STORE_ATTR", "DELETE_NAME", "IMPORT_NAME", "LOAD_METHOD")
LOCALOPS = _have("LOAD_FAST", "STORE_FAST", "DELETE_FAST")
FREEOPS = _have("LOAD_DEREF", "STORE_DEREF", "LOAD_CLOSURE", "DELETE_DEREF", "LOAD_CLASSDEREF")
CONSTOPS = _have("LOAD_CONST")
INTOPS = [(n, r) for n, r in (("CALL_FUNCTION", 300), ("BUILD_TUPLE", 70000), ("BUILD_LIST", 256), ("BUILD_MAP", 20), ("UNPACK_SEQUENCE", 5),
                              ("COMPARE_OP", 6), ("RAISE_VARARGS", 3), ("BUILD_SLICE", 4), ("BUILD_STRING", 300), ("MAKE_FUNCTION", 16),
                              ("IS_OP", 2), ("CONTAINS_OP", 2), ("ROT_N", 9), ("LIST_APPEND", 4), ("CALL_FUNCTION_KW", 9)) if n in OPMAP]
ABSJUMPS = [dis.opname[o] for o in dis.hasjabs if dis.opname[o] in OPMAP and not dis.opname[o].startswith("<")]
# CONTINUE_LOOP (3.7) is an absolute jump as well; all are fine for a block graph
RELJUMPS = [dis.opname[o] for o in dis.hasjrel if not dis.opname[o].startswith("<")]


def cd_module():
    return H.lib()


def build(rng, size="small", canonical=True, depth=0):
    """Returns (CodeData, description).  Well-formed: operand kinds as the opcode table demands, jumps to existing
    blocks, relative jumps forward only, no private override fields."""
    cdm = cd_module()
    I, J, N, V, C, F, CV, NA = cdm.Instruction, cdm.Jump, cdm.Name, cdm.Varname, cdm.Constant, cdm.Freevar, cdm.Cellvar, cdm.NoArg
    desc = {"size": size, "canonical": canonical}
    # ---- header
    functionlike = rng.random() < 0.6
    npo = rng.randrange(3) if (H.PY >= (3, 8) and rng.random() < 0.3) else 0
    npk, nko = rng.randrange(4), rng.randrange(3)
    vp = "va" if rng.random() < 0.35 else None
    vk = "kw" if rng.random() < 0.3 else None
    if not functionlike:
        npo = npk = nko = 0
        vp = vk = None
    args = cdm.Args(tuple("po%d" % i for i in range(npo)), tuple("pk%d" % i for i in range(npk)), vp,
                    tuple("ko%d" % i for i in range(nko)), vk)
    params = list(args.positional_only + args.positional_or_keyword + args.keyword_only) + ([vp] if vp else []) + ([vk] if vk else [])
    docstring = rng.choice([None, None, "doc", "", "d\udc80"]) if functionlike else None
    kind = rng.choice([None, None, None, "GENERATOR", "COROUTINE", "ASYNC_GENERATOR"]) if functionlike else None
    tp = cdm.Function(args, docstring, kind) if functionlike else None
    nfree = rng.choice([0, 0, 1, 3]) if functionlike else 0
    freevars = tuple("fv%d" % i for i in range(nfree))
    ncellnames = rng.choice([0, 0, 1, 2, 300 if size == "big" else 2])
    cellnames = ["cv%d" % i for i in range(ncellnames)]
    if params and ncellnames and rng.random() < 0.5:
        cellnames[0] = params[0]       # a parameter that is also a cell
    # ---- operand pools
    big = size == "big"
    n_names = rng.choice([1, 3, 10, 254, 255, 256, 257, 300] + ([65535, 65536, 65537, 70000] if big else []))
    n_consts = rng.choice([1, 3, 10, 254, 255, 256, 257] + ([65536, 66000] if big and n_names < 1000 else []))
    n_locals = rng.choice([0, 1, 3, 10, 255, 256, 257, 300]) if functionlike else 0
    names = ["n%d" % i for i in range(n_names)]
    fams = gen_const.family_values()
    consts = []
    while len(consts) < min(n_consts, 40):
        consts.append(fams[rng.randrange(len(fams))] if rng.random() < 0.6 else gen_const.value(rng, 0, 2))
    consts += [1000 + i for i in range(n_consts - len(consts))]
    if size == "small" and depth == 0 and rng.random() < 0.35:
        # nested hand-built code objects as constants (distinct names so that they are distinct constants)
        for k in range(rng.choice([1, 2])):
            child, _d = build(rng, "small", True, depth + 1)
            import dataclasses as _dc
            consts.insert(rng.randrange(len(consts) + 1), _dc.replace(child, name="child%d" % k, first_line_number=child.first_line_number + k))
        desc["nested_children"] = True
    if functionlike and docstring is None and rng.random() < 0.5:
        consts.insert(0, "first const is a str")
    locs = params + ["l%d" % i for i in range(n_locals)]
    desc.update({"names": n_names, "consts": len(consts), "locals": len(locs), "cells": ncellnames, "free": nfree,
                 "args": repr(args), "docstring": docstring, "kind": kind})

    # ---- blocks
    nblocks = rng.choice([1, 2, 3, 5, 8, 20, 40] + ([300] if size != "small" else []))
    if size == "wide":
        # few blocks whose sizes straddle the 1/2/3-unit jump operand boundaries
        nblocks = rng.choice([2, 3, 4])
    line = rng.choice([1, 5, 100, 3000])
    first_line = max(1, line - rng.choice([0, 0, 1, 3]))
    blocks = []
    use_names, use_consts, use_locs = list(names), list(consts), list(locs)
    for b in range(nblocks):
        if size == "wide":
            k = rng.choice([120, 126, 127, 128, 129, 130, 250, 255, 256, 260, 32760, 32767, 32768, 32770] if rng.random() < 0.7 else [1, 2, 5])
            if H.IS310 and k > 1000:
                k = rng.choice([65530, 65535, 65536, 65540]) if rng.random() < 0.3 else k
        elif size == "big":
            k = rng.choice([5, 50, 200, 1000])
        else:
            k = rng.choice([1, 1, 2, 3, 5, 8, 13, 30, 70])
        block = []
        for i in range(k):
            c = rng.random()
            if rng.random() < 0.25:
                d = rng.choice([1, 1, 1, 2, 5, 126, 127, 128, 129, 254, 255, 256, 257, 300, 511, 1000])
                if rng.random() < 0.35:
                    d = -d
                if line + d >= 1:
                    line += d
            ln = None if rng.random() < 0.06 else line
            if k > 1000 and c > 0.02:
                block.append(I("NOP", NA(), line_number=ln))
                continue
            if c < 0.25 and NOARG:
                ins = I(rng.choice(NOARG), NA(), line_number=ln)
            elif c < 0.45 and use_names:
                # walk through the table so that large tables are really referenced
                nm = use_names[(b * 7919 + i) % len(use_names)] if rng.random() < 0.5 else rng.choice(use_names)
                ins = I(rng.choice(NAMEOPS), N(nm), line_number=ln)
            elif c < 0.6 and use_consts:
                v = use_consts[(b * 104729 + i) % len(use_consts)] if rng.random() < 0.5 else rng.choice(use_consts)
                ins = I("LOAD_CONST", C(v), line_number=ln)
            elif c < 0.72 and use_locs:
                ins = I(rng.choice(LOCALOPS), V(rng.choice(use_locs)), line_number=ln)
            elif c < 0.78 and (cellnames or freevars):
                if cellnames and (not freevars or rng.random() < 0.5):
                    ins = I(rng.choice(FREEOPS), CV(rng.choice(cellnames)), line_number=ln)
                else:
                    ins = I(rng.choice(FREEOPS), F(rng.choice(freevars)), line_number=ln)
            elif c < 0.9:
                n, r = rng.choice(INTOPS)
                ins = I(n, rng.randrange(r) if rng.random() < 0.8 else min(r - 1, rng.choice([0, 255, 256, 65535, 65536])), line_number=ln)
            else:
                ins = ("JUMP", ln)   # jump placeholder (keeps its own line), filled below
            block.append(ins)
        blocks.append(block)
    # big tables: make sure the tail of each big table is referenced at least once
    if big:
        tail = []
        for nm in names[-3:]:
            tail.append(I("LOAD_NAME", N(nm), line_number=line))
        for v in consts[-3:]:
            tail.append(I("LOAD_CONST", C(v), line_number=line))
        # reference every name once so that the table really has n entries
        blocks[-1].extend(I("LOAD_NAME", N(nm), line_number=line) for nm in names)
        blocks[-1].extend(I("LOAD_CONST", C(v), line_number=line) for v in consts)
        blocks[-1].extend(tail)
    # ---- jumps
    targeted = set([0])
    for b, block in enumerate(blocks):
        for i, ins in enumerate(block):
            if not (isinstance(ins, tuple) and ins and ins[0] == "JUMP"):
                continue
            ln = ins[1]
            if rng.random() < 0.55 or b == nblocks - 1 or not RELJUMPS:
                t = rng.randrange(nblocks)
                block[i] = I(rng.choice(ABSJUMPS), J(t, False), line_number=ln)
            else:
                t = rng.randrange(b + 1, nblocks)
                block[i] = I(rng.choice(RELJUMPS), J(t, True), line_number=ln)
            targeted.add(t)
    if canonical:
        # every later block must be the target of some jump: add absolute jumps at the end of block 0
        for t in range(1, nblocks):
            if t not in targeted:
                blocks[rng.randrange(nblocks)].append(I(rng.choice(ABSJUMPS), J(t, False), line_number=line))
    for block in blocks:
        if not block:
            block.append(I("NOP", NA(), line_number=line))
    cd = cdm.CodeData(
        blocks=tuple(tuple(b) for b in blocks), filename=rng.choice(["<w5>", "f.py", "weird \udc80 name"]),
        first_line_number=first_line, name=rng.choice(["f", "<module>", "<lambda>", "Kl\xe4ss"]), stacksize=rng.choice([0, 1, 7, 300]),
        type=tp, freevars=freevars, future_annotations=rng.random() < 0.2, _nested=False)
    desc["blocks"] = nblocks
    desc["instructions"] = sum(len(b) for b in blocks)
    return cd, desc


# ---------------------------------------------------------------------------------------------------------------
# W6: edits of decoded data

def flatten(cd):
    return [ins for b in cd.blocks for ins in b]


EDITS = ["none", "none", "insert_nops", "insert_nops_big", "duplicate_instruction", "drop_instruction", "drop_additional_args", "shift_override",
         "collide_override", "collide_override_eq", "retarget_jump", "clear_lines", "append_block", "negative_override", "alias_instruction"]
# edits after which the position overrides may be inconsistent (to_code may then raise instead)
MAY_BE_INCONSISTENT = set(["drop_instruction", "drop_additional_args", "shift_override", "collide_override", "collide_override_eq", "negative_override", "alias_instruction"])


def edit(cd, rng, op):
    """Returns (edited CodeData or None, detail)."""
    import dataclasses as dc
    cdm = cd_module()
    I, NA = cdm.Instruction, cdm.NoArg
    blocks = [list(b) for b in cd.blocks]
    flat = flatten(cd)
    if op == "none":
        # decoded data as it is (private overrides and additional args included) is well-formed data too
        return cd, "unedited decoded data"
    if op in ("insert_nops", "insert_nops_big"):
        # before a jump target (start of a block that some jump targets), so that operands must widen
        tb = [ins.arg.target for ins in flat if type(ins.arg).__name__ == "Jump"]
        if not tb:
            return None, "no jumps"
        b = rng.choice(tb)
        k = rng.choice([1, 100, 126, 127, 128, 129, 130, 256]) if op == "insert_nops" else rng.choice([32760, 32770, 40000, 70000])
        line = blocks[b][0].line_number
        # the NOPs join the *previous* block's tail if possible (so that the target still starts block b)
        where = b - 1 if b > 0 else b
        nops = [I("NOP", NA(), line_number=line) for _ in range(k)]
        if b > 0:
            blocks[where].extend(nops)
        else:
            blocks[0] = nops + blocks[0]
        return dc.replace(cd, blocks=tuple(tuple(x) for x in blocks)), "%d NOPs before block %d" % (k, b)
    if op in ("duplicate_instruction", "drop_instruction"):
        cands = [(bi, ii) for bi, b in enumerate(blocks) for ii, ins in enumerate(b)
                 if type(ins.arg).__name__ != "Jump" and (op == "duplicate_instruction" or len(b) > 1)]
        if not cands:
            return None, "no candidate"
        bi, ii = rng.choice(cands)
        if op == "duplicate_instruction":
            blocks[bi].insert(ii, blocks[bi][ii])
        else:
            del blocks[bi][ii]
        return dc.replace(cd, blocks=tuple(tuple(x) for x in blocks)), "%s at block %d index %d" % (op, bi, ii)
    if op == "drop_additional_args":
        if not cd._additional_args:
            return None, "no additional args"
        return dc.replace(cd, _additional_args=()), "dropped %d additional args" % len(cd._additional_args)
    if op == "alias_instruction":
        # the very same Instruction object at two positions (hand-built data shares objects freely): operands belong to positions
        cands = [(bi, ii) for bi, b in enumerate(blocks) for ii, ins in enumerate(b)
                 if type(ins.arg).__name__ == "Jump" and ins.arg.relative and ins.arg.target > bi]
        other = [(bi, ii) for bi, b in enumerate(blocks) for ii, ins in enumerate(b) if type(ins.arg).__name__ in ("Freevar", "Name", "Constant")]
        if not cands and not other:
            return None, "no candidate"
        bi, ii = rng.choice(cands) if cands else rng.choice(other)
        ins = blocks[bi][ii]
        at = rng.randrange(0, ii + 1)
        blocks[bi].insert(at, ins)
        if rng.random() < 0.5:
            blocks[bi].insert(at, dc.replace(ins, name="NOP", arg=cdm.NoArg(0)) if hasattr(cdm, "NoArg") else ins)
        return dc.replace(cd, blocks=tuple(tuple(x) for x in blocks)), "same %s object of block %d also at index %d" % (ins.name, bi, at)
    if op == "negative_override":
        # a position below zero (any integer is a valid JSON value for the field): the first use of some table entry is pinned there,
        # the entries after it keep counting upwards, so the largest position can still equal the table length minus one
        seen = set()
        cands = []
        for bi, b in enumerate(blocks):
            for ii, ins in enumerate(b):
                t = type(ins.arg).__name__
                if t in ("Name", "Varname", "Constant", "Cellvar") and getattr(ins.arg, "_index_override", None) is None:
                    k = (t, repr(ins.arg))
                    if k not in seen:
                        seen.add(k)
                        cands.append((bi, ii))
        if not cands:
            return None, "no candidate"
        bi, ii = cands[0] if rng.random() < 0.6 else rng.choice(cands)
        ins = blocks[bi][ii]
        neg = rng.choice([-1, -1, -2, -300])
        blocks[bi][ii] = dc.replace(ins, arg=dc.replace(ins.arg, _index_override=neg))
        return dc.replace(cd, blocks=tuple(tuple(x) for x in blocks)), "%s at block %d index %d pinned to position %d" % (type(ins.arg).__name__, bi, ii, neg)
    if op in ("shift_override", "collide_override", "collide_override_eq"):
        cands = [(bi, ii) for bi, b in enumerate(blocks) for ii, ins in enumerate(b)
                 if getattr(ins.arg, "_index_override", None) is not None or
                 (op != "shift_override" and type(ins.arg).__name__ == "Constant")]
        if not cands:
            return None, "no candidate"
        bi, ii = rng.choice(cands)
        ins = blocks[bi][ii]
        if op == "shift_override":
            new = dc.replace(ins.arg, _index_override=ins.arg._index_override + rng.choice([1, 2, 5, 300]))
            blocks[bi][ii] = dc.replace(ins, arg=new)
            detail = "override %r -> %r" % (ins.arg._index_override, new._index_override)
        else:
            if type(ins.arg).__name__ != "Constant":
                return None, "not a constant"
            idx = ins.arg._index_override if ins.arg._index_override is not None else 0
            pairs = [(1, True), (0.0, -0.0), (1, 1.0), ((1,), (True,)), ("a", b"a"), (0, False), ((0.0,), (-0.0,))]
            a, b = rng.choice(pairs)
            if op == "collide_override":
                a, b = "w6-left", "w6-right"
            blocks[bi][ii] = dc.replace(ins, arg=cdm.Constant(a, idx))
            blocks[bi].insert(ii + 1, dc.replace(ins, arg=cdm.Constant(b, idx)))
            detail = "Constant(%r, %d) and Constant(%r, %d)" % (a, idx, b, idx)
        return dc.replace(cd, blocks=tuple(tuple(x) for x in blocks)), detail
    if op == "retarget_jump":
        cands = [(bi, ii) for bi, b in enumerate(blocks) for ii, ins in enumerate(b)
                 if type(ins.arg).__name__ == "Jump" and not ins.arg.relative]
        if not cands:
            return None, "no absolute jump"
        bi, ii = rng.choice(cands)
        ins = blocks[bi][ii]
        t = rng.randrange(len(blocks))
        blocks[bi][ii] = dc.replace(ins, arg=dc.replace(ins.arg, target=t))
        return dc.replace(cd, blocks=tuple(tuple(x) for x in blocks)), "jump at block %d index %d -> block %d" % (bi, ii, t)
    if op == "clear_lines":
        k = rng.choice([1, 3, 128, 129, 300])
        n = 0
        for b in blocks:
            for ii, ins in enumerate(b):
                if n < k and rng.random() < 0.7:
                    b[ii] = dc.replace(ins, line_number=None, _line_offsets_override=())
                    n += 1
        return dc.replace(cd, blocks=tuple(tuple(x) for x in blocks), _additional_line=None), "%d instructions set to line None" % n
    if op == "append_block":
        line = blocks[-1][-1].line_number
        newb = [I("NOP", NA(), line_number=line) for _ in range(rng.choice([1, 127, 128, 300]))]
        absj = ABSJUMPS[0]
        blocks[0].insert(0, I(absj, cdm.Jump(len(blocks), False), line_number=blocks[0][0].line_number))
        blocks.append(newb)
        return dc.replace(cd, blocks=tuple(tuple(x) for x in blocks)), "appended block %d" % (len(blocks) - 1)
    return None, "unknown edit"
