# Worker entry point: python worker.py <PROP> <shard.json> <out.jsonl>
from __future__ import print_function

import importlib
import json
import os
import sys
import traceback

sys.dont_write_bytecode = True
HERE = os.path.dirname(os.path.abspath(__file__))
if HERE not in sys.path:
    sys.path.insert(0, HERE)

import hcommon as H  # noqa


def main():
    prop, spath, opath = sys.argv[1:4]
    with open(spath) as f:
        shard = json.load(f)
    H.open_out(opath)
    H.PROP = prop
    sys.setrecursionlimit(5000)
    if shard.get("vendored"):
        H.use_vendored_copy()
    if shard.get("pyflags"):
        # interpreter-mode twin: any warning issued from the library's own modules (at run time or while they are compiled)
        # is an error, as under `python -W error` / pytest's filterwarnings=error
        import warnings
        warnings.filterwarnings("error", module=r"(.*[/.])?code_data([./].*)?$")
    if sys.flags.bytes_warning:
        # `python -b` worker: a str/bytes comparison inside the library is an error (what `python -bb` users get),
        # the same comparison inside the harness or the standard library is not the library's business
        import warnings
        warnings.filterwarnings("ignore", category=BytesWarning)
        H.bytes_strict(True)
    try:
        mod = importlib.import_module("props." + prop.lower())
        mod.run(shard)
    except BaseException:
        H.emit({"t": "worker_error", "interp": H.PYTAG, "trace": traceback.format_exc()[-4000:]})
        H.finish()
        traceback.print_exc()
        sys.exit(3)
    H.finish()


if __name__ == "__main__":
    main()
