# C07 - JSON form is strict, schema-valid and round-trips without loss.
# Deciding monitors: post-condition on _json_data.code_data_to_json (strict-JSON type walk, in-process
# schema validation) and the driver's real text cycle json.dumps(allow_nan=False) -> json.loads ->
# from_json_data with == and NaN-identifying strict code comparison; offline: every recorded document is
# validated by jsonschema (Draft 7 + 2020-12), fastjsonschema and round-tripped through orjson.
from __future__ import print_function

RULE = ("one evaluation = one document: to_json_data(x) for decoded or normalized x, walked for strictness, schema-validated, "
        "dumped with allow_nan=False (ASCII and UTF-8), parsed, loaded, compared (==, strict NaN-identifying code comparison); "
        "non-trivial = document of data with >=1 constant that is not a plain str/small int/None, or any W9 case; "
        "distinct = md5 of the canonical dump")
DECIDING = ["checks:C07.to_json_post", "checks:C07.text_cycle"]
EVAL_COUNTER = "evaluations"
ASSUMPTIONS = ["integer constants include values beyond the interpreter's 4300-digit limit on decimal string conversion (hex literals); harness-side code "
               "(dis, witnesses) runs with that limit lifted, the library under test always under the default limit",
               "offline validators: jsonschema 4.26 (python3-vt), fastjsonschema + orjson (/venv); a document they disagree on is inconclusive",
               "all NaNs are identified when code objects are compared, as the property states"]
TIMEOUT = {"quick": 1200, "thorough": 7200}


def plan(ctx):
    import planlib as P
    shards = []
    k = P.per_interp_shards(ctx)
    for v in ctx.producers:
        if ctx.tier == "quick":
            cases = P.corpus_cases(ctx, v, n_w9=0, n_files=25, n_w3=40, modes=4, max_file_bytes=40000, w1_max_bytes=150000)
            cases += P.w9_cases(ctx, 480)
        else:
            cases = P.corpus_cases(ctx, v, n_w9=0, n_files=500, n_w3=600, modes=60, max_file_bytes=120000, max_w4_bytes=200000)
            cases += P.w9_cases(ctx, 9600)
        shards.extend(P.split(ctx, v, cases, k, "C07:", extra={"docs": True}))
    return shards


def strict_walk(v, path="$"):
    """None when v is plain strict JSON, else description of the first offence."""
    t = type(v)
    if v is None or t is bool or t is str:
        return None
    if t is int:
        if abs(v) > 2 ** 53:
            return "%s: integer %s beyond +-2^53 not carried as a string" % (path, str(v)[:30])
        return None
    if t is float:
        if v != v or v in (float("inf"), float("-inf")):
            return "%s: non-finite float %r" % (path, v)
        return None
    if t is list:
        for i, x in enumerate(v):
            r = strict_walk(x, "%s[%d]" % (path, i))
            if r:
                return r
        return None
    if t is dict:
        for k, x in v.items():
            if type(k) is not str:
                return "%s: non-string key %r" % (path, k)
            r = strict_walk(x, "%s.%s" % (path, k))
            if r:
                return r
        return None
    return "%s: non-JSON type %s" % (path, t.__name__)


def run(shard):
    import hashlib
    import json
    import sys
    import hcommon as H
    import corpus
    import jsonschema_mini
    cdm = H.import_repo()
    _json_data = H.lib("_json_data")
    CodeData = cdm.CodeData
    schema = cdm.JSON_SCHEMA
    state = {"case": None, "route": None}
    docs_out = None
    docs_bytes = [0]
    if shard.get("docs"):
        docs_out = open(H._out.name + ".docs", "w")
        with open(H._out.name + ".schema", "w") as f:
            json.dump(schema, f)
    if hasattr(sys, "set_int_max_str_digits"):
        pass  # keep the interpreter's default policy; generated ints stay below it

    def viol(clause, detail, mech=None):
        H.violation("C07", "to_json_data/from_json_data", clause, dict(state["case"], route=state["route"]), detail, mech)

    def to_post(a, k, res, exc, depth, snap):
        H.count("checks:C07.to_json_post")
        if exc is not None:
            viol("to_json_data raises", "%s: %s" % (type(exc).__name__, exc))
            return
        r = strict_walk(res)
        if r:
            viol("not strict JSON", r)
        r = jsonschema_mini.validate(res, schema)
        if r:
            viol("schema (in-process validator)", r, surrogate_mech(r, res))

    def surrogate_mech(err, doc):
        return None

    H.Monitor(_json_data, "code_data_to_json", post=to_post).install()
    H.Monitor(_json_data, "code_data_from_json").install()

    def interesting(code):
        for c, _d in H.iter_code(code):
            for k in c.co_consts:
                if not (k is None or type(k) is str or (type(k) is int and abs(k) < 2 ** 31) or isinstance(k, H.CodeType)):
                    return True
        return False

    def one(x, route, nontrivial, id_):
        state["route"] = route
        H.count("evaluations")
        try:
            doc = x.to_json_data()
        except Exception:
            return  # recorded by the monitor
        try:
            text = json.dumps(doc, allow_nan=False)
        except Exception as e:
            viol("json.dumps(allow_nan=False) raises", "%s: %s" % (type(e).__name__, e))
            return
        try:
            text8 = json.dumps(doc, allow_nan=False, ensure_ascii=False).encode("utf-8")
        except UnicodeEncodeError as e:
            viol("document is not encodable as UTF-8 JSON text", str(e)[:200])
            text8 = None
        H.count("checks:C07.text_cycle")
        doc2 = json.loads(text)
        if text8 is not None and json.loads(text8.decode("utf-8")) != doc2:
            viol("ASCII and UTF-8 text cycles disagree", "")
        if doc2 != doc:
            viol("document changed by the text cycle", "dumps/loads of the document is a different document")
        if nontrivial:
            H.distinct(hashlib.md5(json.dumps(doc, sort_keys=True).encode()).digest())
        if docs_out is not None and docs_bytes[0] < 40 * 1024 * 1024:
            line = json.dumps({"id": id_, "route": route, "interp": H.PYTAG, "case": state["case"], "doc": doc})
            docs_bytes[0] += len(line)
            docs_out.write(line + "\n")
            H.count("docs_recorded")
        try:
            y = CodeData.from_json_data(doc2)
        except Exception as e:
            viol("from_json_data raises", "%s: %s" % (type(e).__name__, H.short(e, 300)))
            return
        try:
            eq = (y == x)
        except Exception as e:
            viol("equality raises", "%s: %s" % (type(e).__name__, H.short(e, 300)))
            return
        if not eq:
            viol("loaded data differs", "from_json_data(loads(dumps(to_json_data(x)))) != x")
        # the same document after a trip through another serializer (member order, white space) must load to the same data
        for label, doc3 in H.json_transits(doc, text):
            H.count("checks:C07.transit")
            if doc3 != doc:
                continue      # (never: these transformations keep the document equal as a Python value)
            try:
                y3 = CodeData.from_json_data(doc3)
                if not (y3 == x):
                    viol("loaded data differs after a transit of the document", "%s: from_json_data of the same document with %s != x" % (label, label))
            except Exception as e:
                viol("from_json_data raises after a transit of the document", "%s: %s: %s" % (label, type(e).__name__, H.short(e, 300)))
        try:
            cx = x.to_code()
        except Exception:
            H.count("skipped:x_not_encodable")
            return
        try:
            cy = y.to_code()
        except Exception as e:
            viol("loaded data does not encode", "%s: %s" % (type(e).__name__, H.short(e, 300)))
            return
        d = H.strict_diff(cx, cy, nan_ident=True)
        if d:
            viol("loaded data encodes differently", H.short(d[:4], 600))

    for case, id_, code, text in corpus.iter_cases(shard):
        state["case"] = corpus.replay_case(case)
        if case["k"] == "w9":
            state["case"] = dict(case, id=id_, values=H.short(text, 300))
        try:
            cd = CodeData.from_code(code)
        except Exception:
            H.count("decode_raised")
            continue
        nt = case["k"] in ("w9", "w9src") or interesting(code)
        H.feature("kind:" + case["k"])
        one(cd, "decoded", nt, id_)
        try:
            n = cd.normalize()
        except Exception as e:
            viol("normalize raises", repr(e))
            continue
        one(n, "normalized", nt, id_)
        if H._counters.get("cases", 0) <= 3:
            H.sample({"id": id_, "what": H.short(text if isinstance(text, str) else "(file)", 200)})
    if docs_out is not None:
        docs_out.close()


def offline(ctx, results):
    """Independent validators over the recorded documents."""
    import glob
    import json
    import os
    import subprocess
    out = {"viols": [], "inconclusive": [], "counters": {}, "extra": {}}
    docs = sorted(glob.glob(os.path.join(ctx.tmp, "out*.jsonl.docs")))
    schemas = sorted(glob.glob(os.path.join(ctx.tmp, "out*.jsonl.schema")))
    if not docs or not schemas:
        return out
    here = os.path.dirname(os.path.abspath(__file__))
    script = os.path.join(os.path.dirname(here), "offline_jsonschema.py")
    impls = [("jsonschema", "/opt/veriftools/pyvenv/bin/python"), ("fastjsonschema", "/venv/bin/python"), ("orjson", "/venv/bin/python")]
    verdicts = {}
    import concurrent.futures

    def run_one(impl, py, chunk):
        extra = ["--max-bytes=%d" % (12000 if ctx.tier == "quick" else 60000)] if impl == "jsonschema" else []
        p = subprocess.run([py, script, impl, schemas[0]] + extra + chunk, stdout=subprocess.PIPE, stderr=subprocess.PIPE, timeout=3000)
        if p.returncode != 0:
            return impl, None, p.stderr.decode("utf-8", "replace")[-500:]
        return impl, json.loads(p.stdout.decode()), None

    jobs = []
    with concurrent.futures.ThreadPoolExecutor(max_workers=ctx.ncpu) as ex:
        for impl, py in impls:
            if not os.path.exists(py):
                ctx.notes.append("offline validator %s unavailable (%s missing)" % (impl, py))
                continue
            for i in range(0, len(docs), 1):
                jobs.append(ex.submit(run_one, impl, py, docs[i:i + 1]))
        for j in jobs:
            impl, res, err = j.result()
            if res is None:
                ctx.notes.append("offline validator %s failed to run: %s" % (impl, err))
                continue
            out["counters"]["offline_validated:" + impl] = out["counters"].get("offline_validated:" + impl, 0) + res["validated"]
            out["counters"]["offline_skipped_large:" + impl] = out["counters"].get("offline_skipped_large:" + impl, 0) + res.get("skipped_large", 0)
            for f in res["failures"]:
                verdicts.setdefault((f["id"], f.get("interp")), {})[impl] = f
    for (id_, interp), by in verdicts.items():
        f = list(by.values())[0]
        out["viols"].append({"t": "viol", "prop": "C07", "monitor": "offline:" + "+".join(sorted(by)), "clause": "independent schema validation / orjson cycle",
                             "interp": interp, "case": f.get("case") or {"id": id_}, "detail": "; ".join("%s: %s" % (k, v["error"]) for k, v in sorted(by.items())),
                             "mech": None})
    out["extra"]["offline_validators"] = sorted(set(i for i, _ in impls))
    return out
