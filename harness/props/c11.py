# C11 - flags convert without loss; nothing unrepresentable is silently dropped.
# Deciding monitors: post-condition on _flags_data.to_flags_data ("returned => re-encodes to the same
# word") and on _code_data.to_code_data for hand-altered headers ("returned => to_code() reproduces every
# header field").  Raising is always an accepted outcome.
from __future__ import print_function

RULE = ("flag words: one evaluation = one word pushed through to_flags_data under the monitor (subsets of the interpreter's 18 "
        "named flags enumerated; every unknown bit alone, mixed with known subsets, and after the bit was materialised as an "
        "IntFlag pseudo-member); headers: one evaluation = one altered code object (flag bit toggled, argument count +-1) decoded "
        "under the monitor; non-trivial = word with >=2 bits set or any altered header; distinct = the word / (base, alteration)")
DECIDING = ["checks:C11.flags_roundtrip", "checks:C11.header"]
EVAL_COUNTER = "evaluations"
ASSUMPTIONS = ["subsets are processed in chunks of 256 words in forked children because IntFlag caches a pseudo-member per composite "
               "value and enum._decompose walks that cache (quadratic on 3.7/3.8); the chunk order is varied by VERIF_SEED",
               "altered headers that types.CodeType / code.replace refuse to construct are skipped and counted",
               "a to_code() that raises on data decoded from an altered header is counted, not judged (it is not silent)"]
TIMEOUT = {"quick": 1200, "thorough": 7200}
CHUNK = 256


def plan(ctx):
    import planlib as P
    shards = []
    k = P.per_interp_shards(ctx)
    for v in ctx.producers:
        slow = P.pyver(v) <= (3, 8)
        # stride: quick tier samples every 8th subset on the interpreters where _decompose is quadratic
        stride = 8 if (ctx.tier == "quick" and slow) else 1
        nchunks = (1 << 18) // CHUNK
        chunks = list(range(0, nchunks, 1))
        r = P.rng(ctx.seed, "c11", v)
        r.shuffle(chunks)
        for i in range(k):
            shards.append({"interp": v, "label": "C11:%s#%d" % (v, i), "tier": ctx.tier, "seed": ctx.seed, "shard": i,
                           "chunks": chunks[i::k], "stride": stride, "offset": ctx.seed % stride,
                           "headers": i == 0, "unknown": i == 1 % k,
                           "n_headers": 1500 if ctx.tier == "quick" else 20000})
    return shards


def offline(ctx, results):
    n = 0
    for r in results:
        for rec in r["records"]:
            if rec.get("t") == "summary":
                n += rec["counters"].get("subset_words", 0)
    full = len(ctx.producers) * (1 << 18)
    extra = {"flag_subsets_enumerated": n, "flag_subsets_total": full}
    if n == full:
        extra["exhaustive"] = True
        extra["exhaustive_scope"] = "all 2^18 subsets of the 18 CPython-defined flags on every interpreter (the header and unknown-bit workloads are sampled)"
    else:
        extra["exhaustive_scope"] = "subset sweep exhaustive on 3.9/3.10 only in this tier (every 8th subset on 3.7/3.8)"
    return {"extra": extra}


def replay_shard(v):
    case = v.get("case") or {}
    s = {"interp": v["interp"], "label": "replay", "tier": "quick", "seed": 0}
    if "word" in case:
        s["words"] = [case["word"]]
    else:
        s["headers"] = True
        s["header_cases"] = [case]
    return s


BASE_SOURCES = [
    "def f(): pass", "def f(a): return a", "def f(a, b=1): return a", "def f(*a): return a", "def f(**k): return k",
    "def f(a, *b, c, d=1, **e): return a", "def f(*, k): return k", "def f(a):\n    def g(): return a\n    return g",
    "def f():\n    x = 1\n    def g():\n        nonlocal x\n        x += 1\n        return x\n    return g",
    "def f():\n    yield 1", "async def f():\n    await x", "async def f():\n    yield 1", "f = lambda: 0", "f = lambda a, *b, c=1, **d: a",
    "class C:\n    def m(self): return __class__", "class C: pass", "x = 1", "x = [i for i in y]", "def f(a, b, c, d, e): return locals()",
    "from __future__ import annotations\ndef f(a: int): return a", "def f():\n    'doc'\n    return 1", "def f(a, /, b): return a",
    "def f(a, b=2, /, c=3, *d, e, **g): return a", "def f(a, b, /): return a", "def f(a, /):\n    yield a", "lambda a, /: a", "def f(*, k): return k\ndef g(*a): return a", "def f(x):\n    return [x for _ in x]", "def f(x):\n    return lambda: x",
    "import a.b as c", "def f():\n    try:\n        pass\n    finally:\n        pass", "def f():\n    with a: pass",
    "def f(a, b):\n    del a\n    return b", "def f():\n    global g\n    g = 1",
]


# compiler output that needs a compile flag: modules that suspend at top level (asyncio REPL, IPython; 3.8+)
TOP_LEVEL_AWAIT_SOURCES = ["await x", "async for i in y: pass", "async with a: pass", "z = [i async for i in y]", "async for i in y:\n    await i",
                           "x = 1\nasync for i in y: x += i"]


def base_codes():
    import hcommon as H
    import warnings
    import ast
    out = []
    srcs = [(s_, 0) for s_ in BASE_SOURCES]
    if hasattr(ast, "PyCF_ALLOW_TOP_LEVEL_AWAIT"):
        srcs += [(s_, ast.PyCF_ALLOW_TOP_LEVEL_AWAIT) for s_ in TOP_LEVEL_AWAIT_SOURCES]
    for i, (src, cflags) in enumerate(srcs):
        try:
            with warnings.catch_warnings():
                warnings.simplefilter("ignore")
                c = compile(src, "<base%d>" % i, "exec", flags=cflags, dont_inherit=True)
        except SyntaxError:
            continue
        for j, (x, _d) in enumerate(H.iter_code(c)):
            out.append(("b%d.%d" % (i, j), src, x))
    return out


HEADER_FIELDS = ["co_flags", "co_argcount", "co_kwonlyargcount", "co_nlocals", "co_stacksize", "co_name", "co_filename",
                 "co_firstlineno", "co_freevars", "co_cellvars", "co_varnames", "co_names"]


def rebuild(code, **ch):
    """code.replace for every interpreter; returns None when CPython refuses to construct it."""
    import types
    import hcommon as H
    g = lambda n: ch.get(n, getattr(code, n))
    try:
        if H.PY >= (3, 8):
            return types.CodeType(g("co_argcount"), g("co_posonlyargcount"), g("co_kwonlyargcount"), g("co_nlocals"),
                                  g("co_stacksize"), g("co_flags"), g("co_code"), g("co_consts"), g("co_names"),
                                  g("co_varnames"), g("co_filename"), g("co_name"), g("co_firstlineno"),
                                  getattr(code, H.LINE_ATTR), g("co_freevars"), g("co_cellvars"))
        return types.CodeType(g("co_argcount"), g("co_kwonlyargcount"), g("co_nlocals"),
                              g("co_stacksize"), g("co_flags"), g("co_code"), g("co_consts"), g("co_names"),
                              g("co_varnames"), g("co_filename"), g("co_name"), g("co_firstlineno"),
                              getattr(code, H.LINE_ATTR), g("co_freevars"), g("co_cellvars"))
    except (ValueError, TypeError, OverflowError, SystemError):
        return None


def run(shard):
    import json
    import os
    import hcommon as H
    cdm = H.import_repo()
    _flags_data, _code_data = H.lib("_flags_data", "_code_data")
    fields = list(HEADER_FIELDS)
    if H.PY >= (3, 8):
        fields.append("co_posonlyargcount")

    viols = []
    local = {"flags_checks": 0, "raised": 0, "nontrivial": 0}

    # ---- monitor 1: to_flags_data
    def flags_post(a, k, res, exc, depth, snap):
        word = a[0]
        local["flags_checks"] += 1
        if exc is not None:
            local["raised"] += 1
            if not (word & ~known_mask):
                viols.append(("to_flags_data", "raises on a combination of flags CPython defines", {"word": word},
                              "to_flags_data(%#x) raised %s: %s" % (word, type(exc).__name__, exc), None))
            return
        try:
            back = _flags_data.from_flags_data(set(res))
        except Exception as e:
            back = "from_flags_data raised %r" % (e,)
        if back != word:
            viols.append(("to_flags_data", "flag word not reproduced", {"word": word},
                          "to_flags_data(%#x) returned %r which encodes to %s" % (word, sorted(res), back if isinstance(back, str) else hex(back)),
                          "unknown-bit-dropped" if isinstance(back, int) and (word & ~back) and not (back & ~word)
                          and not (word & ~back & known_mask) else None))

    fm = H.Monitor(_flags_data, "to_flags_data", post=flags_post).install(also=[_code_data])

    # the flags CPython defines, taken from the interpreter itself (not from the library's enum)
    import dis
    import __future__
    kb = set(dis.COMPILER_FLAG_NAMES)
    for n in __future__.all_feature_names:
        kb.add(getattr(__future__, n).compiler_flag)
    kb.discard(0)
    known_bits = sorted(kb)
    assert len(known_bits) == 18, known_bits
    known_mask = 0
    for b in known_bits:
        known_mask |= b

    def word_of(k):
        w = 0
        for i, b in enumerate(known_bits):
            if (k >> i) & 1:
                w |= b
        return w

    def flush_viols():
        for mon, clause, case, detail, mech in viols:
            H.violation("C11", mon, clause, case, detail, mech)
        del viols[:]

    # ---- workload (a): subsets of the known flags, chunked into forked children
    stride, offset = shard.get("stride", 1), shard.get("offset", 0)
    for chunk in shard.get("chunks", []):
        r, w = os.pipe()
        pid = os.fork()
        if pid == 0:
            try:
                os.close(r)
                n = 0
                for k in range(chunk * CHUNK + offset, (chunk + 1) * CHUNK, stride):
                    wd = word_of(k)
                    try:
                        _flags_data.to_flags_data(wd)
                    except Exception:
                        pass
                    n += 1
                    if bin(k).count("1") >= 2:
                        local["nontrivial"] += 1
                os.write(w, json.dumps({"n": n, "local": local, "viols": viols[:5], "nviol": len(viols)}).encode())
            finally:
                os._exit(0)
        os.close(w)
        data = b""
        while True:
            b = os.read(r, 65536)
            if not b:
                break
            data += b
        os.close(r)
        os.waitpid(pid, 0)
        if not data:
            H.count("chunk_child_failed")
            continue
        d = json.loads(data.decode())
        H.count("evaluations", d["n"])
        H.count("subset_words", d["n"])
        H.count("checks:C11.flags_roundtrip", d["local"]["flags_checks"])
        H.count("flags_raised", d["local"]["raised"])
        H.distinct_by_construction(d["local"]["nontrivial"])
        for mon, clause, case, detail, mech in d["viols"]:
            H.violation("C11", mon, clause, case, detail, mech)
    # replayed words
    for wd in shard.get("words", []):
        try:
            _flags_data.to_flags_data(wd)
        except Exception:
            pass
        H.count("evaluations")
        H.count("checks:C11.flags_roundtrip")
        flush_viols()

    # ---- workload (b): unknown bits
    if shard.get("unknown"):
        rng = H.rng_for(shard["seed"], "c11-unknown")
        unknown_bits = [1 << i for i in range(32) if not (1 << i) & known_mask]
        for ub in unknown_bits:
            words = [ub] + [ub | word_of(rng.getrandbits(18)) for _ in range(24)]
            for phase in ("fresh", "materialised"):
                if phase == "materialised":
                    try:
                        _flags_data._CodeFlag(ub)  # history: the pseudo-member now exists in the enum's cache
                    except Exception:
                        pass
                for wd in words:
                    try:
                        _flags_data.to_flags_data(wd)
                    except Exception:
                        pass
                    H.count("evaluations")
                    H.count("unknown_bit_words")
                    H.distinct("w:%x:%s" % (wd, phase))
            flush_viols()
        # words outside 0 .. 2^32-1: negative ones (what a C int co_flags with the top bit set reads as; CodeType takes them on 3.7)
        # and ones wider than the field; the low bits are subsets of the known flags, so only the part outside carries the loss
        for trial in range(40):
            low = word_of(rng.getrandbits(18)) if trial else 0x4f
            for wd in (low - 2 ** 31, -low, ~low, -1, -2 ** 31, low - 2 ** 32, low | 1 << 32, low | 1 << 63, low | 1 << 100, low - 2 ** 63):
                try:
                    _flags_data.to_flags_data(wd)
                except Exception:
                    pass
                H.count("evaluations")
                H.count("out_of_range_words")
                H.distinct("w:%x:range" % wd)
            flush_viols()
        H.count("checks:C11.flags_roundtrip", local["flags_checks"])
        H.count("flags_raised", local["raised"])
        H.feature("unknown_bits_tried", len(unknown_bits))
        H.sample({"unknown_bits": [hex(b) for b in unknown_bits[:6]], "known_bits": [hex(b) for b in known_bits]})

    # ---- workload (c): altered headers
    if shard.get("headers"):
        fm.enabled = False  # header workload is judged by the to_code_data monitor
        state = {"case": None}

        def hdr_post(a, k, res, exc, depth, snap):
            if depth != 0:
                return
            H.count("checks:C11.header")
            code = a[0]
            if exc is not None:
                H.count("header:from_code_raised")
                return
            try:
                back = res.to_code()
            except Exception:
                H.count("header:to_code_raised")
                return
            diffs = [(f, getattr(code, f), getattr(back, f)) for f in fields if getattr(code, f) != getattr(back, f)]
            if diffs:
                mech = None
                if len(diffs) == 1 and diffs[0][0] == "co_flags" and (diffs[0][1] & ~diffs[0][2] & ~known_mask):
                    mech = "unknown-bit-dropped"
                H.violation("C11", "to_code_data", "silently lossy header", state["case"],
                            "from_code returned data whose to_code() differs: %s" % H.short(diffs, 500), mech)
            else:
                H.count("header:exact")

        H.Monitor(_code_data, "to_code_data", post=hdr_post).install()
        bases = base_codes()
        alts = []
        for bid, src, c in bases:
            alts.append((bid, src, c, "unaltered", {}))        # the compiler's own header: rejected or preserved, like any other
            for bit in range(32):
                alts.append((bid, src, c, "flag^%#x" % (1 << bit), {"co_flags": c.co_flags ^ (1 << bit)}))
            for f in ["co_argcount", "co_kwonlyargcount", "co_nlocals"] + (["co_posonlyargcount"] if H.PY >= (3, 8) else []):
                for d in (-1, 1, 2):
                    if getattr(c, f) + d >= 0:
                        alts.append((bid, src, c, "%s%+d" % (f, d), {f: getattr(c, f) + d}))
            for pair in ((4, 8), (0x20, 0x80), (0x20, 0x200), (0x80, 0x200), (0x10, 0x40), (1, 2)):
                alts.append((bid, src, c, "flag^%#x" % (pair[0] | pair[1]), {"co_flags": c.co_flags ^ pair[0] ^ pair[1]}))
            alts.append((bid, src, c, "flag+0xc", {"co_flags": c.co_flags | 0xc}))
            alts.append((bid, src, c, "argcount+1,nlocals+1", {"co_argcount": c.co_argcount + 1, "co_nlocals": c.co_nlocals + 1}))
        alts_all = list(alts)
        rng = H.rng_for(shard["seed"], "c11-headers")
        # alterations that clear or set the function flags (alone, as a pair, with the kind flags) are always included;
        # the rest is a seeded sample
        always = [x for x in alts if x[3] in ("unaltered", "flag^0x1", "flag^0x2", "flag^0x3", "flag^0x10", "flag^0x40", "flag+0xc", "flag^0xc")]
        rest = [x for x in alts if x not in always]
        rng.shuffle(rest)
        alts = always + rest[:max(0, shard.get("n_headers", 1500) - len(always))]
        if shard.get("header_cases"):
            want = set((h["base"], h["alteration"]) for h in shard["header_cases"])
            alts = [x for x in alts_all if (x[0], x[3]) in want]
        for bid, src, c, what, ch in alts:
            c2 = rebuild(c, **ch)
            if c2 is None:
                H.count("skipped:cannot_construct")
                continue
            state["case"] = {"k": "header", "base": bid, "source": src, "code_name": c.co_name, "alteration": what, "change": ch}
            H.count("evaluations")
            H.distinct("hdr:%s:%s" % (bid, what))
            try:
                cdm.CodeData.from_code(c2)
            except Exception:
                pass
            if H._counters.get("evaluations", 0) % 400 == 1:
                H.sample(state["case"])
    flush_viols()
