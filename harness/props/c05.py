# C05 - normalization preserves the meaning of the code.
# Deciding monitors: (A) post-condition on the outermost to_code_data call: the decoded data is normalized and
# re-encoded by the real library and the *symbolic* instruction stream (dis + PyCode_Addr2Line), header and
# (A') line-event windows (_PyCode_CheckLineNumber / co_lines) of original and result are compared recursively;
# (B) behavioural: generated programs are executed (original and normalized) in a child process under
# sys.settrace; stdout, exception and the full (code name, event, line) trace must agree.
from __future__ import print_function

RULE = ("static: one evaluation = one code object (nested included) whose symbolic stream, header and line-event windows are "
        "compared between c and from_code(c).normalize().to_code(); behavioural: one evaluation = one generated program executed "
        "twice under settrace; non-trivial = code object with a jump or >=2 line entries (static) / program that produced >=20 "
        "trace events (behavioural); distinct = md5 of bytecode+line table+names / program id")
DECIDING = ["checks:C05.static", "checks:C05.executed"]
EVAL_COUNTER = "evaluations"
ASSUMPTIONS = ["line-event windows: _PyCode_CheckLineNumber via ctypes on 3.7-3.9, merged co_lines() ranges on 3.10",
               "window differences at instructions unreachable in the block graph are counted, not judged",
               "executed programs are the generator's own (deterministic, terminating); 30 s watchdog per program => inconclusive"]
TIMEOUT = {"quick": 1200, "thorough": 7200}


def plan(ctx):
    import planlib as P
    shards = []
    k = P.per_interp_shards(ctx)
    for v in ctx.producers:
        if ctx.tier == "quick":
            cases = P.corpus_cases(ctx, v, n_files=150, n_extra=30, n_w3=120, modes=20, max_file_bytes=150000)
            nexec = 160
        else:
            cases = P.corpus_cases(ctx, v, all_files=True, all_extra=True, n_w3=1500, modes=200)
            nexec = 3000
        shards.extend(P.split(ctx, v, cases, k, "C05:", extra={"nexec": nexec, "nshards": k}))
    return shards


EXEC_TEMPLATES = [
    # shapes that leave zero-width / cancelling lnotab entries on <=3.9 (F-C05a) and other line-table corner cases
    "def f(*flags):\n    return g(\n        'a',\n        'b',\n        'c',\n        *flags)\ndef g(*a): return a\nprint(f(1, 2))\n",
    "def g(*a): return a\nflags = (1,)\nr = g(\n 'a',\n 'b',\n *flags)\nprint(r)\n",
    "x = (1,\n     2,\n     3)\nprint(x)\ny = [\n 1,\n 2]\nprint(y)\n",
    "def f(a):\n    return (a +\n            1 +\n            2)\nprint(f(1))\n",
    "class A: pass\nclass A: pass\nprint(A)\n" if False else "class A:\n    x = 1\nclass A:\n    x = 2\nprint(A.x)\n",
    "def f():\n    x = 1" + "\n" * 130 + "    return x\nprint(f())\n",
    "def f(x):\n    while x:\n        x -= 1\n        if x == 2: continue\n    else:\n        return 'done'\nprint(f(5))\n",
    "def f():\n    try:\n        return 1\n    finally:\n        print('fin')\nprint(f())\n",
    "def f():\n    for i in range(3):\n        try:\n            if i == 1: continue\n            print(i)\n        finally:\n            print('f', i)\nf()\n",
]


def run(shard):
    import json
    import os
    import subprocess
    import sys
    import tempfile
    import hcommon as H
    import corpus
    import decode_oracles as D
    import sym
    import gen_src
    cdm = H.import_repo()
    _code_data = H.lib("_code_data")
    CodeData = cdm.CodeData
    state = {"case": None}
    stats = {}
    holder = {}

    def post(a, k, res, exc, depth, snap):
        if depth != 0 or exc is not None:
            return
        code = a[0]
        mon = holder["mon"]
        mon.enabled = False
        try:
            try:
                back = res.normalize().to_code()
            except Exception as e:
                H.count("checks:C05.static")
                H.violation("C05", "normalize+to_code", "raises on decoded data", state["case"], "%s: %s" % (type(e).__name__, H.short(e, 300)))
                return
        finally:
            mon.enabled = True
        H.count("checks:C05.static")

        def report(clause, detail, mech=None):
            H.violation("C05", "normalize+to_code", clause, state["case"], detail, mech)
        sym.compare(code, back, report, stats=stats)
        n = 0
        for c, _d in H.iter_code(code):
            n += 1
            if D.nontrivial_code(c):
                H.distinct(H.code_key(c))
        H.count("evaluations", n)

    holder["mon"] = H.Monitor(_code_data, "to_code_data", post=post).install()
    for case, id_, code, text in corpus.iter_cases(shard):
        state["case"] = corpus.replay_case(case)
        try:
            CodeData.from_code(code)
        except Exception:
            H.count("decode_raised")
        if H._counters.get("cases", 0) <= 2:
            H.sample({"id": id_})
    for k2, v2 in stats.items():
        H.count("static:" + k2, v2)

    # ---- A': the same transformation with little interpreter stack left (shard 0 of each interpreter)
    if shard.get("shard", 0) == 0 and not shard.get("replay_only"):
        import stress
        import sym
        items = []
        for depth in (12, 60, 150):
            for pn, pair in (("int-bool", (1, True)), ("zero-sign", (0.0, -0.0)), ("int-float", (2, 2.0))):
                try:
                    items.append(({"k": "starved", "id": "starved:nested-%d:%s" % (depth, pn), "depth": depth, "pair": pn}, stress.nested_twin_code(depth, pair)))
                except Exception as e:
                    H.count("skipped:starved_build:" + type(e).__name__)

        def fn(code):
            return CodeData.from_code(code).normalize().to_code()

        def same(a, b):
            d = H.strict_diff(a, b, nan_ident=True)
            return H.short(d[:3], 400) if d else None
        stress.starved("C05", items, fn, same, "from_code(c).normalize().to_code()")

    # ---- B: behavioural
    nexec, nshards, me = shard.get("nexec", 0), shard.get("nshards", 1), shard.get("shard", 0)
    progs = []
    if shard.get("exec_cases"):
        progs = shard["exec_cases"]
    else:
        for i in range(me, nexec, nshards):
            progs.append({"id": "exec:w3:%d:%d" % (shard.get("seed", 0), i), "seed": shard.get("seed", 0), "i": i, "opt": 2 if i % 11 == 10 else 0})
        if me == 0:
            for j, t in enumerate(EXEC_TEMPLATES):
                progs.append({"id": "exec:template:%d" % j, "text": t, "opt": 0})
    tmpdir = tempfile.mkdtemp(prefix="c05-")
    runner = os.path.join(os.path.dirname(os.path.dirname(os.path.abspath(__file__))), "exec_runner.py")
    for pr in progs:
        if "text" in pr:
            text = pr["text"]
        else:
            text = gen_src.gen_program(H.rng_for(pr["seed"], "w3exec", pr["i"]), H.PY, 0.8)
        case = {"k": "exec", "id": pr["id"], "text": text, "opt": pr.get("opt", 0)}
        path = os.path.join(tmpdir, "p.py")
        with open(path, "w", encoding="utf-8", errors="surrogatepass") as f:
            f.write(text)
        try:
            p = subprocess.run([sys.executable, "-X", "faulthandler", runner, path, str(pr.get("opt", 0))], env=dict(os.environ),
                               stdout=subprocess.PIPE, stderr=subprocess.PIPE, timeout=30)
        except subprocess.TimeoutExpired:
            H.inconclusive("C05", "executed program hit the 30 s watchdog", {"id": pr["id"]})
            continue
        phases = {}
        for line in p.stdout.decode("utf-8", "replace").splitlines():
            try:
                d = json.loads(line)
                phases[d["phase"]] = d
            except ValueError:
                pass
        if "original" not in phases:
            H.inconclusive("C05", "runner produced no result for the original program", {"id": pr["id"], "stderr": p.stderr.decode("utf-8", "replace")[-300:]})
            continue
        H.count("checks:C05.executed")
        H.count("evaluations")
        o = phases["original"]
        if len(o["trace"]) >= 20:
            H.distinct(pr["id"])
        H.feature("exec_exception:%s" % (o["exc"][0] if o["exc"] else None))
        if "normalize-failed" in phases:
            H.violation("C05", "exec", "normalize/to_code raises", case, phases["normalize-failed"]["error"])
            continue
        if "normalized" not in phases:
            H.violation("C05", "exec", "executing the normalized code kills the interpreter", case,
                        "exit status %s; stderr: %s" % (p.returncode, p.stderr.decode("utf-8", "replace")[-600:]))
            continue
        n = phases["normalized"]
        if o["stdout"] != n["stdout"]:
            H.violation("C05", "exec", "output differs", case, "original printed %s ; normalized printed %s" % (H.short(o["stdout"], 300), H.short(n["stdout"], 300)))
        if o["exc"] != n["exc"]:
            H.violation("C05", "exec", "exception differs", case, "%r vs %r" % (o["exc"], n["exc"]))
        if o["trace"] != n["trace"]:
            def collapse(tr):
                out = []
                for e in tr:
                    if e[1] == "line" and out and out[-1] == e:
                        continue
                    out.append(e)
                return out
            mech = None
            zs = phases.get("static", {}).get("zero_sum_addresses", 0)
            if zs and collapse(o["trace"]) == collapse(n["trace"]):
                mech = "cancelling-zero-width-lnotab-deltas"
            k3 = 0
            while k3 < min(len(o["trace"]), len(n["trace"])) and o["trace"][k3] == n["trace"][k3]:
                k3 += 1
            H.violation("C05", "exec", "traced events differ", case, "first difference at event %d: original %s ; normalized %s" % (
                k3, o["trace"][max(0, k3 - 2):k3 + 3], n["trace"][max(0, k3 - 2):k3 + 3]), mech)
        H.count("trace_events", len(o["trace"]))
        if H._counters.get("checks:C05.executed", 0) <= 2:
            H.sample({"id": pr["id"], "trace_events": len(o["trace"]), "stdout_head": o["stdout"][:120], "exc": o["exc"]})
    import shutil
    shutil.rmtree(tmpdir, ignore_errors=True)


def replay_shard(v):
    c = v["case"]
    s = {"interp": v["interp"], "label": "replay", "tier": "quick", "seed": 0, "cases": [], "nexec": 0}
    if c.get("k") == "exec":
        s["exec_cases"] = [{"id": c["id"], "text": c["text"], "opt": c.get("opt", 0)}]
    elif c.get("k") == "starved":
        s["shard"] = 0      # the starved sweep runs in shard 0
    else:
        s["cases"] = [c]
    return s
