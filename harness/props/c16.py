# C16 - the command line prints what the API returns for the same program.
# Deciding step: offline parse of the CLI's stdout / exit status (one real subprocess per invocation running
# code_data._cli.main with the plain-print fallback), compared with the in-process API result for the same program.
from __future__ import print_function

RULE = ("one evaluation = one CLI invocation (source option x output-flag subset x program, plus the 0-source and >=2-source "
        "combinations); stdout is split into source / --dis / CodeData line / JSON / --dis-after sections and each is compared with "
        "the in-process API result; non-trivial = invocation with >=1 output flag or a usage case; distinct = the argv")
DECIDING = ["checks:C16.invocation"]
EVAL_COUNTER = "evaluations"
ASSUMPTIONS = ["rich is not installed on the 3.7-3.10 interpreters, so the plain print fallback is what runs",
               "the printed CodeData line is compared textually with repr(api result) under the same PYTHONHASHSEED; eval() of the line is "
               "only used to excuse a textual difference, never to accuse; unparseable output is inconclusive"]
TIMEOUT = {"quick": 1200, "thorough": 7200}

FLAGS = ["--json", "--no-normalize", "--dis", "--dis-after", "--source"]
MODULES = ["__hello__", "c16_sourceless_mod", "colorsys", "keyword", "this", "json.scanner", "bisect", "sched", "json", "json.tool", "email.mime.text", "xml.dom", "__future__", "antigravity"]
PROGRAMS = [
    "x = 1\n", "", "\n", "a", "def f(a, *b, c=1, **d):\n    'doc'\n    return a\n", "class A:\n    def m(self): return __class__\n",
    "f(\n1)\n", "x = [0.0, -0.0, 1e999, 1e999-1e999, 2**70, 1j, b'a', ..., None, (1, (2.0, True))]\n",
    "def f(x):\n    return x in {1, 'a', 2.0}\n", "for i in x:\n    if i: continue\n    break\nelse:\n    y = 1\n",
    "async def f():\n    async for i in x:\n        yield i\n", "x = '\\ud800'\n", "def f():\n    return\n    def g(): pass\n",
    "lambda: (yield)\n", "try:\n    a\nexcept E as e:\n    b\nfinally:\n    c\n", "x = 'CodeData(not really)'\n",
    "import os.path as p\nfrom . import q\n", "x = 1; y = 2; z = x + y\nprint(z)\n",
    "x = [1e999j, -1e999j, 1e999j * 0, 2 + 1e999j, 1e999, -(1e999 - 1e999)]\n", "def f(v=(1e999j, 2**70, b'\\xff', -0.0)):\n    return v in {1e999j, 0j}\n",
]


def plan(ctx):
    import planlib as P
    shards = []
    k = P.per_interp_shards(ctx)
    n = 128 if ctx.tier == "quick" else 800
    for v in ctx.producers:
        for i in range(k):
            shards.append({"interp": v, "label": "C16:%s#%d" % (v, i), "tier": ctx.tier, "seed": ctx.seed, "shard": i,
                           "nshards": k, "n": n})
    return shards


def e_shape(program, shape):
    """A Python expression for `-e` whose value is a program text known by construction, and that text.  The
    documented helper name `linesep` (== "\\n" here) is used at module level of the expression and inside the
    nested scopes an expression can have (generator expression, comprehensions, lambda, conditional)."""
    import os
    lines = program.split("\n")
    if os.linesep != "\n" or shape == 0:
        return repr(program), program
    if shape == 1:
        return "linesep.join(%r)" % (lines,), program
    if shape == 2:
        return "''.join(l + linesep for l in %r)" % (lines,), "".join(l + "\n" for l in lines)
    if shape == 3:
        return "''.join([l + linesep for l in %r])" % (lines,), "".join(l + "\n" for l in lines)
    if shape == 4:
        return "(lambda ls: linesep.join(ls))(%r)" % (lines,), program
    if shape == 5:
        return "%r + linesep + %r" % (lines[0], "\n".join(lines[1:])), lines[0] + "\n" + "\n".join(lines[1:])
    if shape == 6:
        return "str.join(linesep, map(str, %r)) if len(linesep) == 1 else None" % (lines,), program
    if shape == 7:
        return "''.join({i: l + linesep for i, l in enumerate(%r)}.values())" % (lines,), "".join(l + "\n" for l in lines)
    if shape == 8:
        return "''.join(sorted({(i, l + linesep) for i, l in enumerate(%r)}) and [l + chr(10) for l in %r])" % (lines, lines), "".join(l + "\n" for l in lines)
    return "(lambda: %r)().replace(chr(0), linesep)" % (program.replace("\n", "\0") if "\0" not in program else program,), program


N_ESHAPES = 10


def invocations(seed, n, pyver):
    """Deterministic list of invocation specs."""
    import hcommon as H
    import gen_src
    rng = H.rng_for(seed, "c16")
    out = []
    # usage matrix: 0 sources and every pair / triple of sources
    srcs = {"file": None, "-c": "x = 1", "-e": "'y = 2'", "-m": "keyword"}
    out.append({"kind": "usage", "sources": []})
    names = sorted(srcs)
    for i in range(len(names)):
        for j in range(i + 1, len(names)):
            out.append({"kind": "usage", "sources": [names[i], names[j]]})
            for l in range(j + 1, len(names)):
                out.append({"kind": "usage", "sources": [names[i], names[j], names[l]]})
    out.append({"kind": "usage", "sources": names})
    # falsy-but-present sources
    out.append({"kind": "single", "via": "-c", "program": "", "flags": []})
    out.append({"kind": "single", "via": "-e", "program": "", "flags": []})
    out.append({"kind": "usage", "sources": ["-c", "-e"], "override": {"-c": ""}})
    out.append({"kind": "usage", "sources": ["-c", "-e"], "override": {"-e": "''"}})
    out.append({"kind": "usage", "sources": ["-c", "-m"], "override": {"-c": ""}})
    out.append({"kind": "usage", "sources": ["file", "-c"], "override": {"-c": ""}})
    # every single flag and the empty set on a fixed program, then random subsets x programs x source options
    for fl in [[]] + [[f] for f in FLAGS] + [["--dis", "--dis-after"], ["--json", "--no-normalize"], FLAGS]:
        out.append({"kind": "single", "via": "-c", "program": PROGRAMS[4], "flags": fl})
    for mname in ("__hello__", "c16_sourceless_mod"):
        for fl in ([], ["--json"], ["--no-normalize", "--json", "--dis", "--dis-after"]):
            out.append({"kind": "single", "via": "-m", "module": mname, "flags": fl})
    import base64
    import c16_programs
    for k, raw in enumerate(c16_programs.RAW_FILES):
        out.append({"kind": "single", "via": "rawfile", "raw": base64.b64encode(raw).decode("ascii"),
                    "flags": [[], ["--source"], ["--json", "--dis", "--dis-after"]][k % 3]})
    out.append({"kind": "single", "via": "-c", "program": "x=1", "flags": [], "glued": True})
    out.append({"kind": "single", "via": "-c", "program": "x = y + 1", "flags": ["--json"], "glued": True})
    out.append({"kind": "single", "via": "-m", "module": "keyword", "flags": [], "glued": True})
    out.append({"kind": "single", "via": "-e", "program": "z = 3", "flags": ["--no-normalize"], "glued": True, "eshape": 1})
    # stdout that is not UTF-8 (a latin-1 / cp1252 locale or pipe): what is printed must decode, in that encoding, to the same text
    for enc in ("latin-1", "cp1252"):
        for fl in ([], ["--json"], ["--json", "--dis-after"], ["--source", "--no-normalize"]):
            out.append({"kind": "single", "via": "-c", "program": "s = 'caf\u00e9 \u00fc'\ndef f(\u00e9=1):\n    return \u00e9\n", "flags": fl, "ioenc": enc})
    for k, name in enumerate(c16_programs.ODD_FILE_NAMES):
        out.append({"kind": "single", "via": "file", "program": PROGRAMS[k % len(PROGRAMS)], "relname": name, "flags": [[], ["--json"], ["--source", "--dis"]][k % 3]})
    for k, prog in enumerate(c16_programs.TEXT_HAZARDS):
        for via in ("-c", "file", "-e"):
            out.append({"kind": "single", "via": via, "program": prog, "flags": [["--json"], [], ["--no-normalize", "--json"]][(k + len(via)) % 3],
                        "eshape": (k + seed) % N_ESHAPES})
    i = 0
    while len(out) < n:
        via = rng.choice(["file", "-c", "-e", "-m", "-c", "file"])
        flags = [f for f in FLAGS if rng.random() < 0.4]
        if via == "-m":
            out.append({"kind": "single", "via": via, "module": rng.choice(MODULES), "flags": flags})
        else:
            if rng.random() < 0.5:
                prog = PROGRAMS[rng.randrange(len(PROGRAMS))]
            else:
                prog = gen_src.gen_program(H.rng_for(seed, "c16prog", i), pyver, 0.3)
            out.append({"kind": "single", "via": via, "program": prog, "flags": flags, "eshape": rng.randrange(N_ESHAPES), "glued": rng.random() < 0.3})
        i += 1
    return out


def run(shard):
    import contextlib
    import dis
    import importlib.util
    import io
    import json
    import os
    import re
    import subprocess
    import sys
    import tempfile
    import warnings
    import hcommon as H
    cdm = H.import_repo()
    CodeData = cdm.CodeData
    _cli = H.lib("_cli")
    ns = dict((n, getattr(cdm, n)) for n in ("CodeData", "Instruction", "Jump", "Name", "Varname", "Constant", "Freevar", "Cellvar",
                                              "NoArg", "Args", "Function", "AdditionalLine"))
    ns.update({"nan": float("nan"), "inf": float("inf"), "Ellipsis": Ellipsis})
    ADDR = re.compile(r"0x[0-9a-fA-F]+")
    # the command runs in the same interpreter mode as this worker (python -O changes what compile() produces)
    OFLAGS = (["-" + "O" * sys.flags.optimize] if sys.flags.optimize else []) + (["-bb"] if sys.flags.bytes_warning else [])
    tmpdir = tempfile.mkdtemp(prefix="c16-")
    env = dict(os.environ)
    # a module that only exists as a .pyc file (code but no source text), importable by the CLI subprocess and by this worker
    import py_compile
    srcless = os.path.join(tmpdir, "c16_sourceless_mod.py")
    with open(srcless, "w") as f:
        f.write("def f(a, *b, k=1):\n    'doc'\n    return [i for i in b]\nx = f(1)\n")
    py_compile.compile(srcless, cfile=os.path.join(tmpdir, "c16_sourceless_mod.pyc"), doraise=True)
    os.remove(srcless)
    env["PYTHONPATH"] = tmpdir + os.pathsep + env.get("PYTHONPATH", "")
    sys.path.insert(0, tmpdir)
    launcher = "import sys; from %s._cli import main; main()" % H.LIBNAME

    def dis_text(code):
        buf = io.StringIO()
        with contextlib.redirect_stdout(buf):
            _cli.show_code_recursive(code)
            dis.dis(code)
        return buf.getvalue()

    def instr_stream(text):
        """(section header, [(opname, argrepr)]) from dis.dis output; jumps keep only the opname."""
        out = []
        for line in text.splitlines():
            m = re.match(r"^\s*(?:\d+)?\s*(?:>>)?\s*(\d+)\s+([A-Z_][A-Z_0-9+]*)\s*(-?\d+)?\s*(\(.*\))?\s*$", line)
            if line.startswith("Disassembly of"):
                out.append(("SECTION", ADDR.sub("0x", line)))
            elif m:
                op = m.group(2)
                if op == "EXTENDED_ARG":
                    continue
                rep = m.group(4)
                if rep is not None and rep.startswith("(to "):
                    rep = "(jump)"
                if rep is None and op in JUMPNAMES:
                    rep = "(jump)"
                out.append((op, ADDR.sub("0x", rep) if rep is not None else m.group(3)))
        return out

    def sections(stream):
        out = {}
        cur = "TOP"
        n = {}
        for op, rep in stream:
            if op == "SECTION":
                n[rep] = n.get(rep, 0) + 1
                cur = (rep, n[rep])
                out.setdefault(cur, [])
            else:
                out.setdefault(cur, []).append((op, rep))
        return out

    JUMPNAMES = set(dis.opname[o] for o in list(dis.hasjabs) + list(dis.hasjrel))

    def viol(spec, clause, detail):
        H.violation("C16", "cli", clause, {"k": "cli", "id": " ".join(spec.get("argv_show", [])), "spec": spec}, detail)

    all_inv = invocations(shard["seed"], shard["n"], H.PY)
    mine = all_inv[shard.get("shard", 0)::shard.get("nshards", 1)]
    if shard.get("specs"):
        mine = shard["specs"]
    fileno = [0]

    cwd = [None]

    def src_argv(via, program=None, module=None, relname=None, glued=False):
        """argv part + (source text, filename) the API side must use."""
        if via == "file":
            fileno[0] += 1
            p = os.path.join(tmpdir, "prog%d.py" % fileno[0])
            if relname:
                d = os.path.join(tmpdir, "dir%d" % fileno[0])
                os.mkdir(d)
                cwd[0] = d
                p = os.path.join(d, relname)
            with open(p, "w", encoding="utf-8", errors="surrogatepass") as f:
                f.write(program)
            return ([relname], relname) if relname else ([p], p)
        if via == "-c":
            pt = program.replace("\n", "\\n")
            if glued and pt and pt[0] not in "-=":
                return ["-c" + pt], "<string>"           # getopt spelling: the value attached to the short option
            return ["-c", pt], "<string>"
        if via == "-e":
            return ["-e", repr(program)], "<string>"
        if via == "-m":
            return (["-m" + module] if glued else ["-m", module]), None
        raise ValueError(via)

    for spec in mine:
        H.count("evaluations")
        H.count("checks:C16.invocation")
        if spec["kind"] == "usage":
            argv = []
            vals = {"file": os.path.join(tmpdir, "u.py"), "-c": "x = 1", "-e": "'y = 2'", "-m": "keyword"}
            vals.update(spec.get("override", {}))
            with open(vals["file"], "w") as f:
                f.write("z = 3\n")
            for s in spec["sources"]:
                argv += [vals[s]] if s == "file" else [s, vals[s]]
            spec["argv_show"] = argv
            p = subprocess.run([sys.executable] + OFLAGS + ["-c", launcher] + argv, env=env, stdout=subprocess.PIPE, stderr=subprocess.PIPE, timeout=120)
            H.feature("usage:%d-sources" % len(spec["sources"]))
            H.distinct("usage:" + repr(argv))
            if p.returncode != 2:
                viol(spec, "usage error expected", "%d sources given, exit status %d (expected 2); stderr: %s" % (
                    len(spec["sources"]), p.returncode, p.stderr.decode("utf-8", "replace")[-300:]))
            elif p.stdout.strip():
                viol(spec, "usage error prints to stdout", p.stdout.decode("utf-8", "replace")[:200])
            continue

        via, flags = spec["via"], spec["flags"]
        program = spec.get("program")
        raw = None
        if via == "rawfile":
            # a program file given as bytes: BOM, coding cookie, CRLF - whatever `python file.py` accepts
            import base64
            import tokenize
            raw = base64.b64decode(spec["raw"])
            try:
                compile(raw, "<probe>", "exec")
            except (SyntaxError, ValueError):
                H.count("skipped:program_invalid")
                continue
            fileno[0] += 1
            rawpath = os.path.join(tmpdir, "raw%d.py" % fileno[0])
            with open(rawpath, "wb") as f:
                f.write(raw)
            with tokenize.open(rawpath) as f:
                program = f.read()
        if via in ("-c", "-e") and program is not None and ("\\n" in program or "\r" in program):
            program = program.replace("\\n", " ").replace("\r", " ")
        if via in ("file", "-c", "-e"):
            try:
                with warnings.catch_warnings():
                    warnings.simplefilter("ignore")
                    compile(program, "<probe>", "exec")
                program.encode("utf-8")
            except (SyntaxError, ValueError, UnicodeEncodeError):
                H.count("skipped:program_invalid")
                continue
        if via == "rawfile":
            sa, filename = [rawpath], rawpath
        elif via == "-e":
            expr, program = e_shape(program, spec.get("eshape", 0))
            sa, filename = (["-e" + expr] if spec.get("glued") and expr[0] not in "-=" else ["-e", expr]), "<string>"
            H.feature("e-shape:%d" % spec.get("eshape", 0))
        else:
            cwd[0] = None
            sa, filename = src_argv(via, program, spec.get("module"), spec.get("relname"), spec.get("glued", False))
        argv = sa + flags
        spec["argv_show"] = [a if len(a) < 80 else a[:77] + "..." for a in argv]
        env_ = env
        if spec.get("ioenc"):
            env_ = dict(env, PYTHONIOENCODING=spec["ioenc"])
            H.feature("stdout-encoding:" + spec["ioenc"])
        p = subprocess.run([sys.executable] + OFLAGS + ["-c", launcher] + argv, env=env_, stdout=subprocess.PIPE, stderr=subprocess.PIPE, timeout=300,
                           cwd=cwd[0])
        try:
            out = p.stdout.decode(spec.get("ioenc") or "utf-8", "surrogateescape" if not spec.get("ioenc") else "strict")
        except UnicodeDecodeError as e:
            viol(spec, "stdout is not text in the encoding the process was given", str(e)[:200])
            continue
        H.feature("via:" + via)
        for f in flags:
            H.feature("flag:" + f)
        if flags:
            H.distinct("single:" + repr(argv))
        if p.returncode != 0:
            viol(spec, "valid program rejected", "exit status %d; stderr: %s" % (p.returncode, p.stderr.decode("utf-8", "replace")[-400:]))
            continue
        # API side
        if via == "-m":
            mspec = importlib.util.find_spec(spec["module"])
            code = mspec.loader.get_code(spec["module"])
            source = mspec.loader.get_source(spec["module"])
        else:
            source = program
            with warnings.catch_warnings():
                warnings.simplefilter("ignore")
                code = compile(raw if raw is not None else source, filename, "exec")
        data = CodeData.from_code(code)
        if "--no-normalize" not in flags:
            data = data.normalize()
        rest = out
        # 1. source section
        if "--source" in flags and source is not None:
            want = source + "\n"
            if not rest.startswith(want):
                viol(spec, "--source section", "stdout does not start with the program text")
                continue
            rest = rest[len(want):]
        # 2. --dis section: everything up to the CodeData line (compared below)
        dis_before = dis_text(code) if "--dis" in flags else ""
        # 3. the CodeData line
        idx = rest.find("CodeData(blocks=")
        while idx > 0 and rest[idx - 1] != "\n":
            idx = rest.find("CodeData(blocks=", idx + 1)
        if idx < 0:
            H.inconclusive("C16", "no CodeData line found in stdout", {"argv": spec["argv_show"]})
            continue
        before = rest[:idx]
        if "--dis" in flags:
            if ADDR.sub("0x", before) != ADDR.sub("0x", dis_before):
                viol(spec, "--dis section", "printed disassembly differs from dis of the compiled program")
        elif before.strip():
            viol(spec, "unexpected output before the CodeData line", H.short(before, 200))
        eol = rest.find("\n", idx)
        line = rest[idx:eol]
        rest = rest[eol + 1:]
        want_repr = repr(data)
        if line != want_repr:
            excused = False
            try:
                got = eval(line, dict(ns))
                excused = (got == data)
            except Exception:
                pass
            if not excused:
                other = CodeData.from_code(code)
                if "--no-normalize" in flags:
                    other = other.normalize()
                hint = " (it is the %s data instead)" % ("normalized" if "--no-normalize" in flags else "un-normalized") \
                    if line == repr(other) else ""
                viol(spec, "printed CodeData differs from the API result", "printed line != repr(api result)%s" % hint)
        # 4. JSON
        if "--json" in flags:
            try:
                obj, end = json.JSONDecoder().raw_decode(rest)
            except ValueError as e:
                viol(spec, "--json output does not parse", str(e)[:200])
                continue
            rest = rest[end:].lstrip("\n")
            try:
                loaded = CodeData.from_json_data(obj)
                if loaded != data:
                    viol(spec, "--json document loads to different data", "from_json_data(printed JSON) != api result")
            except Exception as e:
                viol(spec, "--json document does not load", "%s: %s" % (type(e).__name__, H.short(e, 200)))
            if obj != data.to_json_data():
                viol(spec, "--json document differs from to_json_data()", "")
        # 5. --dis-after
        if "--dis-after" in flags:
            want_after = dis_text(data.to_code())
            if ADDR.sub("0x", rest) != ADDR.sub("0x", want_after):
                viol(spec, "--dis-after section", "printed disassembly differs from dis of api_result.to_code()")
            if "--dis" in flags:
                a, b = sections(instr_stream(before)), sections(instr_stream(rest))
                # normalization may drop code objects that no instruction references (dead definitions), so a section
                # may be missing after; a section present in both, and the top-level code, must show the same instructions
                for hdr, stream in b.items():
                    if hdr not in a:
                        viol(spec, "--dis-after shows different instructions than --dis", "section %r only appears after" % (hdr,))
                    elif a[hdr] != stream:
                        k = 0
                        while k < min(len(a[hdr]), len(stream)) and a[hdr][k] == stream[k]:
                            k += 1
                        viol(spec, "--dis-after shows different instructions than --dis",
                             "section %r: first difference at instruction %d: %r vs %r" % (hdr, k, a[hdr][k:k + 2], stream[k:k + 2]))
                if "--no-normalize" in flags and set(a) != set(b):
                    viol(spec, "--dis-after shows different instructions than --dis", "sections differ under --no-normalize")
                if "TOP" not in b:
                    viol(spec, "--dis-after shows different instructions than --dis", "no top-level disassembly after")
                if "--no-normalize" in flags and ADDR.sub("0x", before) != ADDR.sub("0x", rest):
                    viol(spec, "--dis-after differs textually under --no-normalize", "")
        elif rest.strip():
            viol(spec, "unexpected trailing output", H.short(rest, 200))
        if H._counters.get("evaluations", 0) % 20 == 3:
            H.sample({"argv": spec["argv_show"], "stdout_bytes": len(out)})
    import shutil
    shutil.rmtree(tmpdir, ignore_errors=True)


def replay_shard(v):
    spec = v["case"]["spec"]
    return {"interp": v["interp"], "label": "replay", "tier": "quick", "seed": 0, "n": 0, "specs": [spec]}
