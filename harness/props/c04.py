# C04 - function signature, docstring and kind agree with CPython's calling convention.
# Deciding monitor: post-condition on every _code_data.to_code_data call.  References: CPython's own
# argument binder (a stub function with the same header is *called*), inspect.signature, __doc__,
# inspect.is*function.
from __future__ import print_function

RULE = ("one evaluation = one decoded code object; function-like ones (OPTIMIZED|NEWLOCALS) get the binder probe "
        "(positive and negative calls of a stub with the same header), inspect.signature, __doc__ and inspect.is*function "
        "comparison; others must decode with type None; non-trivial = function-like with >=1 parameter or a docstring or a "
        "generator/coroutine kind; distinct = (header counts, flags, parameter names, first constant) digest")
DECIDING = ["checks:C04.signature", "checks:C04.binder_probe"]
EVAL_COUNTER = "evaluations"
ASSUMPTIONS = ["inspect.signature renames comprehension parameters '.N' to 'implicitN' (positional-only); that cosmetic difference is normalised, the binder probe is primary",
               "the binder probe calls a stub code object with the same argument counts, VARARGS/VARKEYWORDS flags and parameter names, not the original body"]
TIMEOUT = {"quick": 900, "thorough": 7200}
EXHAUSTIVE = None


def sweep_sources(pyver, tier, seed):
    """Exhaustive signature-shape sweep: list of (id, source, optimize)."""
    import itertools
    posmax = 3 if pyver >= (3, 8) else 0
    rng_counts = range(3) if tier == "quick" else range(4)
    sigs = []
    for npo in (range(min(posmax, max(rng_counts)) + 1)):
        for nreg in rng_counts:
            for nkw in rng_counts:
                for star in (0, 1):
                    for dstar in (0, 1):
                        parts = ["p%d" % i for i in range(npo)]
                        if npo:
                            parts.append("/")
                        parts += ["r%d" % i for i in range(nreg)]
                        if star:
                            parts.append("*va")
                        elif nkw:
                            parts.append("*")
                        parts += ["k%d=%d" % (i, i) if i % 2 else "k%d" % i for i in range(nkw)]
                        if dstar:
                            parts.append("**kw")
                        sigs.append(", ".join(parts))
    docs = [("nodoc", "pass"), ("doc", "'doc'"), ("bytesfirst", "b'x'"), ("fstr", "f'{1}'"),
            ("docused", "'doc'; return 'doc'"), ("strnotfirst", "x = 1; return 'late'"), ("retstr", "return 'only const'")]
    out = []
    for dname, body in docs:
        for kind in ("def", "async", "gen", "asyncgen", "method", "closure", "lambda"):
            lines = []
            for n, sig in enumerate(sigs):
                if kind == "def":
                    lines.append("def f%d(%s): %s" % (n, sig, body))
                elif kind == "async":
                    lines.append("async def f%d(%s): %s" % (n, sig, body))
                elif kind == "gen":
                    b = body if "return" not in body else body.split(";")[0]
                    lines.append("def f%d(%s):\n    %s\n    yield 1" % (n, sig, b))
                elif kind == "asyncgen":
                    b = body if "return" not in body else body.split(";")[0]
                    if b.startswith("return"):
                        b = "pass"
                    lines.append("async def f%d(%s):\n    %s\n    yield 1" % (n, sig, b))
                elif kind == "method":
                    lines.append("class C%d:\n    'cdoc'\n    def m(self%s): %s" % (n, (", " + sig) if not sig.startswith("p") else ", " + sig, body))
                elif kind == "closure":
                    lines.append("def o%d(fv):\n    def f(%s):\n        %s\n        return fv\n    return f" % (n, sig, body.split(";")[0] if "return" in body else body))
                elif kind == "lambda":
                    if dname not in ("nodoc", "doc"):
                        continue
                    lines.append("f%d = lambda %s: %s" % (n, sig, "'lamdoc'" if dname == "doc" else "0"))
            if not lines:
                continue
            src = "\n".join(lines) + "\n"
            for opt in ((0, 2) if dname in ("doc", "docused") else (0,)):
                out.append(("sweep:%s:%s:O%d" % (kind, dname, opt), src, opt))
    comps = "a = [i for i in x]\nb = {i for i in x}\nc = {i: i for i in x}\nd = (i for i in x)\n" \
            "def f(y):\n    return [[j for j in i if y] for i in x], (lambda z=y: [z for _ in x])\n" \
            "async def g():\n    return [i async for i in x], (i async for i in x)\n" \
            "class K:\n    'kdoc'\n    z = [i for i in x]\n"
    out.append(("sweep:comprehensions", comps, 0))
    return out


def plan(ctx):
    import planlib as P
    shards = []
    k = P.per_interp_shards(ctx)
    for v in ctx.producers:
        if ctx.tier == "quick":
            cases = P.corpus_cases(ctx, v, n_files=250, n_extra=30, n_w3=120, modes=30, max_file_bytes=200000)
        else:
            cases = P.corpus_cases(ctx, v, all_files=True, all_extra=True, n_w3=1000, modes=150)
        for id_, src, opt in sweep_sources(P.pyver(v), ctx.tier, ctx.seed):
            cases.append({"k": "src", "id": id_, "text": src, "filename": "<sweep>", "opt": opt})
        shards.extend(P.split(ctx, v, cases, k, "C04:"))
    return shards


CO_OPTIMIZED, CO_NEWLOCALS, CO_VARARGS, CO_VARKEYWORDS, CO_NOFREE = 1, 2, 4, 8, 0x40
CO_GENERATOR, CO_COROUTINE, CO_ASYNC_GENERATOR = 0x20, 0x80, 0x200


def make_stub(code):
    """Code object with the same header whose body returns the tuple of its parameter slots."""
    import dis
    import types
    import hcommon as H
    nparams = code.co_argcount + code.co_kwonlyargcount + bool(code.co_flags & CO_VARARGS) + bool(code.co_flags & CO_VARKEYWORDS)
    names = code.co_varnames[:nparams]
    if len(names) != nparams:
        return None, None
    bc = []
    for i in range(nparams):
        bc += [dis.opmap["LOAD_FAST"], i]
    if nparams > 255:
        return None, None
    bc += [dis.opmap["BUILD_TUPLE"], nparams, dis.opmap["RETURN_VALUE"], 0]
    flags = (code.co_flags & (CO_VARARGS | CO_VARKEYWORDS)) | CO_OPTIMIZED | CO_NEWLOCALS | CO_NOFREE
    if H.PY >= (3, 8):
        stub = types.CodeType(code.co_argcount, code.co_posonlyargcount, code.co_kwonlyargcount, nparams, nparams + 1,
                              flags, bytes(bc), (None,), (), names, "<stub>", "stub", 1, b"", (), ())
    else:
        stub = types.CodeType(code.co_argcount, code.co_kwonlyargcount, nparams, nparams + 1,
                              flags, bytes(bc), (None,), (), names, "<stub>", "stub", 1, b"", (), ())
    return types.FunctionType(stub, {}), names


class _M(object):
    """Marker value."""
    def __init__(self, n):
        self.n = n

    def __repr__(self):
        return "<M %s>" % self.n


def binder_probe(code, args, report):
    import hcommon as H
    fn, names = make_stub(code)
    if fn is None:
        H.count("skipped:stub_not_constructible")
        return
    H.count("checks:C04.binder_probe")
    slot = dict((n, i) for i, n in enumerate(names))
    po, pk, ko = list(args.positional_only), list(args.positional_or_keyword), list(args.keyword_only)
    vp, vk = args.var_positional, args.var_keyword
    declared = po + pk + ([vp] if vp else []) + ko + ([vk] if vk else [])
    if sorted(declared) != sorted(names):
        report("binder: parameter set", "decoded parameters %r, header parameters %r" % (declared, list(names)))
        return
    marks = dict((n, _M(n)) for n in declared)
    extras = (_M("x1"), _M("x2"))
    unk = _M("unk")

    def call(pos_names, kw_names, extra_pos=False, extra_kw=False):
        a = [marks[n] for n in pos_names] + (list(extras) if extra_pos else [])
        k = dict((n, marks[n]) for n in kw_names)
        if extra_kw:
            k["__unknown_kw__"] = unk
        return fn(*a, **k)

    def expect_ok(label, pos_names, kw_names, extra_pos, extra_kw):
        try:
            res = call(pos_names, kw_names, extra_pos, extra_kw)
        except TypeError as e:
            report("binder: " + label, "CPython rejects the call the decoded Args describes: %s ; Args=%r varnames=%r" % (e, args, list(names)))
            return False
        for n in pos_names + kw_names:
            if res[slot[n]] is not marks[n]:
                report("binder: " + label, "parameter %r received %r ; Args=%r varnames=%r" % (n, res[slot[n]], args, list(names)))
                return False
        if vp:
            want = extras if extra_pos else ()
            got = res[slot[vp]]
            if not (isinstance(got, tuple) and len(got) == len(want) and all(x is y for x, y in zip(got, want))):
                report("binder: " + label, "*%s received %r ; Args=%r varnames=%r" % (vp, got, args, list(names)))
                return False
        if vk:
            got = res[slot[vk]]
            if not (isinstance(got, dict) and ((got == {"__unknown_kw__": unk}) if extra_kw else got == {})):
                report("binder: " + label, "**%s received %r ; Args=%r varnames=%r" % (vk, got, args, list(names)))
                return False
        return True

    def expect_typeerror(label, a, k):
        try:
            fn(*a, **k)
        except TypeError:
            return True
        report("binder: " + label, "CPython accepts a call the decoded Args forbids ; Args=%r varnames=%r" % (args, list(names)))
        return False

    ok = expect_ok("positional call", po + pk, ko, bool(vp), bool(vk))
    if ok:
        ok = expect_ok("keyword call", po, pk + ko, False, False)
    if not ok:
        return
    base_a = [marks[n] for n in po + pk]
    base_k = dict((n, marks[n]) for n in ko)
    if po and not vk and H.PY >= (3, 8):
        a = [marks[n] for n in po[:-1]]
        k = dict(base_k)
        k[po[-1]] = marks[po[-1]]
        for n in pk:
            k[n] = marks[n]
        expect_typeerror("positional-only by keyword", a, k)
    if ko and not vp:
        k = dict(base_k)
        del k[ko[0]]
        expect_typeerror("keyword-only positionally", base_a + [marks[ko[0]]], k)
    if not vp:
        expect_typeerror("extra positional", base_a + [extras[0]], base_k)
    if not vk:
        k = dict(base_k)
        k["__unknown_kw__"] = unk
        expect_typeerror("unknown keyword", base_a, k)


def _cell():
    return (lambda x: lambda: x)(0).__closure__[0]


def run(shard):
    import inspect
    import types
    import hcommon as H
    import decode_oracles as D
    H.import_repo()
    Function = H.lib("Function")

    KIND = {inspect.Parameter.POSITIONAL_ONLY: "po", inspect.Parameter.POSITIONAL_OR_KEYWORD: "pk",
            inspect.Parameter.VAR_POSITIONAL: "vp", inspect.Parameter.KEYWORD_ONLY: "ko",
            inspect.Parameter.VAR_KEYWORD: "vk"}

    def on_decoded(code, cd, case, report):
        H.count("evaluations")
        fl = code.co_flags
        functionlike = (fl & 3) == 3
        if not functionlike:
            H.count("checks:C04.nonfunction")
            if cd.type is not None:
                report("non-function type", "flags %#x but decoded type %r" % (fl, cd.type))
            return
        H.count("checks:C04.signature")
        tp = cd.type
        if not isinstance(tp, Function):
            report("function type", "function-like code (flags %#x) decoded with type %r" % (fl, tp))
            return
        args = tp.args
        nparams = code.co_argcount + code.co_kwonlyargcount + bool(fl & CO_VARARGS) + bool(fl & CO_VARKEYWORDS)
        try:
            ln = len(args)
        except Exception as e:
            report("len(args)", "raises %r" % (e,))
            ln = None
        if ln is not None and ln != nparams:
            report("len(args)", "len(args)=%d, header declares %d parameters; Args=%r" % (ln, nparams, args))
        # 1. binder probe
        binder_probe(code, args, report)
        # 2. inspect.signature and friends on a function built from the very code object
        try:
            closure = tuple(_cell() for _ in code.co_freevars) or None
            f = types.FunctionType(code, {}, code.co_name, None, closure)
        except Exception as e:
            H.count("skipped:FunctionType:" + type(e).__name__)
            return
        try:
            sig = inspect.signature(f)
            ref = []
            for p in sig.parameters.values():
                n, kd = p.name, KIND[p.kind]
                if n.startswith("implicit") and n[8:].isdigit():
                    n, kd = "." + n[8:], "pk"
                ref.append((n, kd))
            got = [(n, KIND[kd]) for n, kd in args.parameters.items()]
            if got != ref:
                shape = "vp+ko" if (fl & CO_VARARGS and code.co_kwonlyargcount) else "other"
                report("inspect.signature", "decoded %r, inspect.signature %r" % (got, ref),
                       None)
                H.feature("sigdiff:" + shape)
        except (ValueError, TypeError) as e:
            H.count("skipped:signature:" + type(e).__name__)
        if tp.docstring != f.__doc__ or type(tp.docstring) is not type(f.__doc__):
            report("docstring", "decoded %s, __doc__ %s" % (H.short(tp.docstring, 80), H.short(f.__doc__, 80)))
        kind = "ASYNC_GENERATOR" if inspect.isasyncgenfunction(f) else "COROUTINE" if inspect.iscoroutinefunction(f) \
            else "GENERATOR" if inspect.isgeneratorfunction(f) else None
        if tp.type != kind:
            report("kind", "decoded %r, inspect classifies %r" % (tp.type, kind))
        H.feature("kind:%s" % kind)
        H.feature("shape:po%d pk%d ko%d%s%s" % (min(len(args.positional_only), 3), min(len(args.positional_or_keyword), 3),
                                                min(len(args.keyword_only), 3), " *" if args.var_positional else "",
                                                " **" if args.var_keyword else ""))
        if nparams or tp.docstring is not None or kind:
            first = code.co_consts[0] if code.co_consts else None
            H.distinct(repr((code.co_argcount, code.co_kwonlyargcount, getattr(code, "co_posonlyargcount", 0), fl,
                             code.co_varnames[:nparams], first if isinstance(first, (str, bytes, type(None))) else type(first).__name__)))

    D.drive(shard, "C04", on_decoded, "C04.decoded", stress_same=D.same_types)
