# C02 - decoded instructions, operands, jumps and lines match CPython's own reading.
# Deciding monitor: post-condition on every _code_data.to_code_data call (every nesting level),
# comparing with dis.get_instructions / PyCode_Addr2Line / co_lines of the same interpreter.
from __future__ import print_function

RULE = ("one evaluation = one instruction of a decoded code object compared with dis (opname, operand, jump target, "
        "kind) and PyCode_Addr2Line (line); non-trivial code object = >=1 jump or >=2 line-table entries; "
        "distinct = md5 of bytecode+line table+names")
DECIDING = ["checks:C02.instructions"]
EVAL_COUNTER = "evaluations"
ASSUMPTIONS = ["dis.get_instructions, PyCode_Addr2Line and co_lines of each interpreter are the reference reading",
               "oparg values above INT_MAX are wrapped as CPython's evaluation loop does (bpo-46724)",
               "this oracle never calls to_code, so an error shared by encoder and decoder cannot hide"]
TIMEOUT = {"quick": 900, "thorough": 7200}


def plan(ctx):
    import planlib as P
    shards = []
    k = P.per_interp_shards(ctx)
    for v in ctx.producers:
        if ctx.tier == "quick":
            cases = P.corpus_cases(ctx, v, n_files=400, n_extra=50, n_w3=150, modes=40, max_file_bytes=300000)
        else:
            cases = P.corpus_cases(ctx, v, all_files=True, all_extra=True, n_w3=1500, modes=200)
        shards.extend(P.split(ctx, v, cases, k, "C02:"))
    return shards


def run(shard):
    import hcommon as H
    import decode_oracles as D
    cdm = H.import_repo()

    seen_ops = set()

    def on_decoded(code, cd, case, report):
        colines = H.colines_lookup(code) if H.IS310 else None
        n = D.check_instructions(code, cd, cdm, report, colines)
        H.count("evaluations", n)
        b = code.co_code
        for opc in set(b[::2]):
            seen_ops.add(opc)
        if D.nontrivial_code(code):
            H.distinct(H.code_key(code))

    D.drive(shard, "C02", on_decoded, "C02.instructions", variants=3, stress_same=D.same_instructions)
    import dis
    H.emit({"t": "opcodes", "interp": H.PYTAG, "seen": sorted(dis.opname[o] for o in seen_ops),
            "all": sorted(n for n in dis.opmap if not n.startswith("<"))})


def offline(ctx, results):
    seen, allops = {}, {}
    for r in results:
        for rec in r["records"]:
            if rec.get("t") == "opcodes":
                seen.setdefault(rec["interp"], set()).update(rec["seen"])
                allops[rec["interp"]] = set(rec["all"])
    return {"extra": {"opcodes_seen_per_interpreter": dict((v, len(s)) for v, s in sorted(seen.items())),
                      "opcodes_never_seen": dict((v, sorted(allops[v] - seen[v])) for v in sorted(seen))}}
