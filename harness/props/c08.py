# C08 - CodeData is an immutable value: hash/eq contract and type-exact equality.
# Deciding monitor: a pool monitor over every CodeData / Constant produced by different routes (decode, decode of
# an identity-fresh clone, JSON load, deepcopy, normalize, hand construction).  At quiescent points all pairs in
# a bucket are checked: symmetry, hash agreement, set/dict lookup, transitivity; equality of Constants is compared
# with CPython's own partition (_PyCode_ConstantKey, NaNs identified); equal data must encode identically.
from __future__ import print_function

RULE = ("one evaluation = one ordered pair (a, b) of CodeData or Constant values checked for symmetry, a==b => hash(a)==hash(b), "
        "set/dict lookup, agreement with the reference partition, and (CodeData) a==b => identical to_code(); plus one per frozen-ness "
        "probe; non-trivial = pair of distinct objects that are equal, or whose reference keys are equal, or of different type families; "
        "distinct = digest of (repr(a), repr(b)) truncated")
DECIDING = ["checks:C08.pair", "checks:C08.constant_partition", "checks:C08.frozen"]
EVAL_COUNTER = "evaluations"
ASSUMPTIONS = ["reference partition of constants = ctypes _PyCode_ConstantKey equality for NaN-free values; for values containing a NaN, "
               "type- and bit-exact structural equality with all NaNs identified (the exception the property states)",
               "identity-fresh clones of code objects are made with marshal.loads(marshal.dumps(code))"]
TIMEOUT = {"quick": 1200, "thorough": 7200}


def plan(ctx):
    import planlib as P
    shards = []
    k = P.per_interp_shards(ctx)
    for v in ctx.producers:
        if ctx.tier == "quick":
            cases = P.corpus_cases(ctx, v, n_w9=0, n_files=10, n_w3=24, modes=2, max_file_bytes=15000, w3_size=0.6, w1_max_bytes=30000,
                                   w4_filter=lambda i: i.startswith(("const-", "sig-", "doc-", "dead-", "fold-tuple-5", "fold-in", "dup", "nested")))
            cases += P.w9_cases(ctx, 360)
        else:
            cases = P.corpus_cases(ctx, v, n_w9=0, n_files=250, n_w3=500, modes=20, max_file_bytes=60000, w1_max_bytes=150000, max_w4_bytes=40000)
            cases += P.w9_cases(ctx, 7200)
        shards.extend(P.split(ctx, v, cases, k, "C08:", extra={"families": True}))
    return shards


def has_nan(v):
    t = type(v)
    if t is float:
        return v != v
    if t is complex:
        return v.real != v.real or v.imag != v.imag
    if t in (tuple, frozenset):
        return any(has_nan(x) for x in v)
    return False


def run(shard):
    import copy
    import dataclasses as dc
    import hashlib
    import json
    import marshal
    import hcommon as H
    import corpus
    import gen_const
    cdm = H.import_repo()
    CodeData, Constant = cdm.CodeData, cdm.Constant
    state = {"case": None}

    def viol(clause, detail, mech=None):
        H.violation("C08", "pool", clause, state["case"], detail, mech)

    def ref_equal(a, b):
        """CPython's partition of constants, NaNs identified."""
        na, nb = has_nan(a), has_nan(b)
        if na != nb:
            return False
        if na:
            return H.const_fp(a, nan_ident=True) == H.const_fp(b, nan_ident=True)
        ka, kb = H.cpython_constant_key(a), H.cpython_constant_key(b)
        try:
            return ka == kb
        except Exception:
            return H.const_fp(a) == H.const_fp(b)

    def nan_mech(a, b):
        return None

    def check_pair(a, b, label, expect_equal=None, encode=False):
        """All the laws for one unordered pair."""
        H.count("checks:C08.pair")
        H.count("evaluations", 2)
        try:
            ab, ba = (a == b), (b == a)
        except Exception as e:
            viol("== raises", "%s: %s: %s" % (label, type(e).__name__, e))
            return None
        if ab != ba:
            viol("symmetry", "%s: a==b is %r but b==a is %r" % (label, ab, ba))
        if (a != b) == ab:
            viol("!= inconsistent", "%s: a==b is %r and a!=b is %r" % (label, ab, a != b))
        try:
            ha, hb = hash(a), hash(b)
        except Exception as e:
            viol("hash raises", "%s: %s: %s" % (label, type(e).__name__, H.short(e, 200)))
            return ab
        if ab:
            if ha != hb:
                viol("equal values, different hashes", "%s: a==b but hash(a)=%d hash(b)=%d" % (label, ha, hb))
            else:
                if a not in {b} or b not in {a}:
                    viol("set lookup misses equal key", label)
                if {b: 1}.get(a) != 1:
                    viol("dict lookup misses equal key", label)
        if expect_equal is not None and ab != expect_equal:
            viol("expected %s" % ("equal" if expect_equal else "unequal"), label)
        if ab and encode and a is not b:
            try:
                ca, cb = a.to_code(), b.to_code()
                d = H.strict_diff(ca, cb, nan_ident=True)
                if d:
                    viol("equal CodeData encode differently", "%s: %s" % (label, H.short(d[:3], 500)))
            except Exception as e:
                H.count("skipped:encode:" + type(e).__name__)
        if ab and a is not b:
            H.distinct(hashlib.md5((label + H.srepr(a)[:300]).encode("utf-8", "replace")).digest())
        return ab

    IMMUTABLE = (str, bytes, int, float, complex, bool, type(None), type(Ellipsis))

    def frozen_walk(x, path, budget):
        """Structure contains only immutable containers / scalars / frozen dataclasses; setattr must raise."""
        if budget[0] <= 0:
            return
        if dc.is_dataclass(x) and not isinstance(x, type):
            budget[0] -= 1
            H.count("checks:C08.frozen")
            H.count("evaluations")
            for f in dc.fields(x):
                try:
                    setattr(x, f.name, getattr(x, f.name))
                    viol("attribute assignment succeeds", "%s.%s on %s" % (path, f.name, type(x).__name__))
                except (dc.FrozenInstanceError, AttributeError):
                    pass
                except Exception as e:
                    viol("attribute assignment raises unexpected %s" % type(e).__name__, "%s.%s" % (path, f.name))
            try:
                delattr(x, dc.fields(x)[0].name)
                viol("attribute deletion succeeds", "%s on %s" % (path, type(x).__name__))
            except (dc.FrozenInstanceError, AttributeError):
                pass
            try:
                setattr(x, "brand_new_attribute", 1)
                viol("new attribute can be added", "%s on %s" % (path, type(x).__name__))
            except (dc.FrozenInstanceError, AttributeError, TypeError):
                pass
            for f in dc.fields(x):
                frozen_walk(getattr(x, f.name), path + "." + f.name, budget)
        elif type(x) in (tuple, frozenset):
            for i, y in enumerate(x):
                frozen_walk(y, "%s[%d]" % (path, i), budget)
        elif isinstance(x, IMMUTABLE):
            return
        else:
            viol("mutable or foreign object reachable", "%s is a %s" % (path, type(x).__name__))

    # ---- constants: families and random values against CPython's partition ----------------------------
    def constant_pool_check(values, label):
        cs = [Constant(v) for v in values]
        eqm = {}
        for i in range(len(values)):
            for j in range(i, len(values)):
                H.count("checks:C08.constant_partition")
                H.count("evaluations")
                want = ref_equal(values[i], values[j])
                got = check_pair(cs[i], cs[j], "%s Constant(%s) vs Constant(%s)" % (label, H.short(values[i], 60), H.short(values[j], 60)))
                eqm[(i, j)] = eqm[(j, i)] = got
                if got is not None and got != want:
                    viol("equality differs from CPython's constant partition",
                         "%s: Constant(%s) == Constant(%s) is %r, reference partition says %r" % (
                             label, H.short(values[i], 80), H.short(values[j], 80), got, want))
                if i != j and (want or type(values[i]) is not type(values[j])):
                    H.distinct("%s|%s|%s" % (label, H.srepr(values[i]), H.srepr(values[j])))
        # transitivity
        n = len(values)
        for i in range(n):
            for j in range(n):
                if not eqm.get((i, j)):
                    continue
                for k in range(n):
                    if eqm.get((j, k)) and not eqm.get((i, k)):
                        viol("transitivity", "%s: a==b, b==c but a!=c for %s, %s, %s" % (
                            label, H.short(values[i], 50), H.short(values[j], 50), H.short(values[k], 50)))
        # override participates in equality
        if values:
            c0, c1 = Constant(values[0], 0), Constant(values[0], 1)
            check_pair(c0, c1, label + " override 0 vs 1", expect_equal=False)
            check_pair(c0, Constant(values[0], 0), label + " same override", expect_equal=True)
            try:
                if c0 == values[0]:
                    viol("Constant equals a bare value", label)
            except Exception:
                pass

    if shard.get("families") and shard.get("shard", 0) == 0:
        state["case"] = {"k": "families", "id": "w9-families"}
        for fi, fam in enumerate(gen_const.FAMILIES):
            fresh = [marshal.loads(marshal.dumps(v)) for v in fam]
            constant_pool_check(list(fam) + fresh, "family%d" % fi)
        constant_pool_check(list(gen_const.LEAVES), "leaves")
        H.sample({"family": [repr(x) for x in gen_const.FAMILIES[0]]})
    if shard.get("families"):
        rng = H.rng_for(shard.get("seed", 0), "c08-values", shard.get("shard", 0))
        state["case"] = {"k": "random-values", "id": "w9-random-values:%s" % shard.get("shard", 0)}
        for rnd in range(12 if shard.get("tier") == "quick" else 150):
            vals = [gen_const.value(rng) for _ in range(10)]
            vals += [marshal.loads(marshal.dumps(v)) for v in vals[:5]]
            constant_pool_check(vals, "random%d" % rnd)

    # ---- hand-constructed CodeData (W5 graphs): JSON load, deepcopy and re-decode routes --------------------------
    if shard.get("families"):
        import gen_data
        for n in range(6 if shard.get("tier") == "quick" else 60):
            r5 = H.rng_for(shard.get("seed", 0), "c08-w5", shard.get("shard", 0), n)
            try:
                hcd, desc = gen_data.build(r5, "small", True)
            except Exception as e:
                H.count("skipped:w5_build:" + type(e).__name__)
                continue
            state["case"] = {"k": "w5", "id": "c08-w5:%s:%d" % (shard.get("shard", 0), n), "desc": desc}
            routes = [("hand-built", hcd)]
            try:
                routes.append(("json", CodeData.from_json_data(json.loads(json.dumps(hcd.to_json_data())))))
            except Exception as e:
                H.count("skipped:w5_json:" + type(e).__name__)
            routes.append(("deepcopy", copy.deepcopy(hcd)))
            for i in range(len(routes)):
                for j in range(i, len(routes)):
                    check_pair(routes[i][1], routes[j][1], "w5 routes %s vs %s" % (routes[i][0], routes[j][0]), expect_equal=True, encode=(i != j))
            try:
                back = CodeData.from_code(hcd.to_code())
                check_pair(back.normalize(), CodeData.from_code(back.to_code()).normalize(), "w5 re-decoded normal forms", expect_equal=True, encode=True)
            except Exception as e:
                H.count("skipped:w5_encode:" + type(e).__name__)
            frozen_walk(hcd, "w5", [25])

    # ---- hand-built near misses of a function's header: equal data must encode identically -----------------------
    if shard.get("families") and shard.get("shard", 0) == 0:
        import itertools
        fcode = [c for c in compile("def f(a, b=1, *c, d=2, **e):\n    return a\n", "<args>", "exec", dont_inherit=True).co_consts if isinstance(c, H.CodeType)][0]
        base = CodeData.from_code(fcode)
        Args = cdm.Args
        variants = []
        names = ["a", "a", "b"]
        for po in ((), ("a",), ("a", "a"), ("b",)):
            for pk in ((), ("a",), ("a", "a"), ("a", "b"), ("b", "a")):
                for vp in (None, "a", "c"):
                    for ko in ((), ("a",), ("d",)):
                        for vk in (None, "a", "e"):
                            if H.PY < (3, 8) and po:
                                continue
                            variants.append(Args(positional_only=po, positional_or_keyword=pk, var_positional=vp, keyword_only=ko, var_keyword=vk))
        rngv = H.rng_for(shard.get("seed", 0), "c08-args")
        if len(variants) > 70:
            variants = variants[:6] + rngv.sample(variants[6:], 64)
        datas = []
        for v in variants:
            try:
                datas.append((v, dc.replace(base, type=dc.replace(base.type, args=v))))
            except Exception as e:
                H.count("skipped:args_variant:" + type(e).__name__)
        state["case"] = {"k": "families", "id": "w9-families", "part": "args near misses"}
        for i in range(len(datas)):
            for j in range(i, len(datas)):
                H.count("checks:C08.args_near_miss")
                check_pair(datas[i][1], datas[j][1], "hand-built %r vs %r" % (datas[i][0], datas[j][0]), encode=(i != j))
                check_pair(datas[i][0], datas[j][0], "Args %r vs %r" % (datas[i][0], datas[j][0]),
                           expect_equal=(dc.astuple(datas[i][0]) == dc.astuple(datas[j][0])))

    # ---- CodeData routes ---------------------------------------------------------------------------------
    bucket = []
    for case, id_, code, text in corpus.iter_cases(shard):
        state["case"] = corpus.replay_case(case)
        if case["k"] == "w9":
            state["case"] = dict(case, id=id_, values=H.short(text, 200))
        try:
            r1 = CodeData.from_code(code)
        except Exception:
            H.count("decode_raised")
            continue
        routes = [("decode", r1)]
        try:
            clone = marshal.loads(marshal.dumps(code))
            if not H.strict_diff(code, clone):
                routes.append(("decode-of-clone", CodeData.from_code(clone)))
        except Exception as e:
            H.count("skipped:marshal:" + type(e).__name__)
        try:
            routes.append(("json", CodeData.from_json_data(json.loads(json.dumps(r1.to_json_data())))))
        except Exception as e:
            H.count("skipped:json_route:" + type(e).__name__)   # C07's business
        try:
            routes.append(("deepcopy", copy.deepcopy(r1)))
        except Exception as e:
            viol("deepcopy raises", repr(e))
        try:
            import pickle
            routes.append(("pickle", pickle.loads(pickle.dumps(r1))))   # not required to work; if it does, the laws must hold
        except Exception as e:
            H.count("skipped:pickle:" + type(e).__name__)
        for name, r in routes:
            try:
                hash(r)
            except Exception as e:
                viol("not hashable", "route %s: %s: %s" % (name, type(e).__name__, H.short(e, 200)))
        for i in range(len(routes)):
            for j in range(i, len(routes)):
                soft = "pickle" in (routes[i][0], routes[j][0]) or "deepcopy" in (routes[i][0], routes[j][0])
                check_pair(routes[i][1], routes[j][1], "routes %s vs %s" % (routes[i][0], routes[j][0]),
                           expect_equal=None if soft and i != j else True, encode=(i != j and j - i == 1))
        norm = []
        for name, r in routes[:3]:
            try:
                norm.append((name + "+normalize", r.normalize()))
            except Exception as e:
                viol("normalize raises", repr(e))
        for i in range(len(norm)):
            for j in range(i + 1, len(norm)):
                check_pair(norm[i][1], norm[j][1], "routes %s vs %s" % (norm[i][0], norm[j][0]), expect_equal=True, encode=(j == i + 1))
        frozen_walk(routes[-2][1] if len(routes) > 2 else r1, "cd", [40])
        # cross-program pairs at code-object granularity
        subs = list(r1.all_code_data())
        rng2 = H.rng_for(shard.get("seed", 0), "c08-bucket", id_)
        for s in (subs if len(subs) <= 4 else rng2.sample(subs, 4)):
            bucket.append((id_, s))
        if len(bucket) >= 48:
            for i in range(len(bucket)):
                for j in range(i + 1, len(bucket)):
                    check_pair(bucket[i][1], bucket[j][1], "pool %s vs %s" % (bucket[i][0], bucket[j][0]), encode=False)
            del bucket[:]
        if H._counters.get("cases", 0) <= 3:
            H.sample({"id": id_, "routes": [n for n, _ in routes]})


def replay_shard(v):
    c = v.get("case") or {}
    s = {"interp": v["interp"], "label": "replay", "tier": "quick", "seed": int(__import__("os").environ.get("VERIF_SEED", "0")), "cases": []}
    if c.get("k") == "families":
        s.update({"families": True, "shard": 0})
    elif c.get("k") == "random-values":
        s.update({"families": True, "shard": int(str(c.get("id", ":0")).rsplit(":", 1)[1])})
    else:
        s["cases"] = [dict((k, x) for k, x in c.items() if k != "values")]
    return s
