# C13 - blocks are exactly the jump-target partition of the instruction sequence.
# Deciding monitor: post-condition on every _code_data.to_code_data call; the jump-target set is
# computed from dis only.
from __future__ import print_function

RULE = ("one evaluation = one decoded code object whose block starts are compared (set equality) with {0} + the jump "
        "targets dis reports; non-trivial = decoded into >=2 blocks; distinct = md5 of bytecode+line table+names")
DECIDING = ["checks:C13.partition"]
EVAL_COUNTER = "evaluations"
ASSUMPTIONS = ["dis.get_instructions of each interpreter is the reference for jump targets (oparg wrapped at INT_MAX as the eval loop does)"]
TIMEOUT = {"quick": 900, "thorough": 7200}


def plan(ctx):
    import planlib as P
    shards = []
    k = P.per_interp_shards(ctx)
    for v in ctx.producers:
        if ctx.tier == "quick":
            cases = P.corpus_cases(ctx, v, n_files=400, n_extra=50, n_w3=150, modes=40, max_file_bytes=300000)
        else:
            cases = P.corpus_cases(ctx, v, all_files=True, all_extra=True, n_w3=1500, modes=200)
        shards.extend(P.split(ctx, v, cases, k, "C13:"))
    return shards


def run(shard):
    import hcommon as H
    import decode_oracles as D
    H.import_repo()

    def on_decoded(code, cd, case, report):
        D.check_blocks(code, cd, report)
        H.count("evaluations")
        nb = len(cd.blocks)
        H.feature("blocks:%s" % ("1" if nb == 1 else "2-9" if nb < 10 else "10-99" if nb < 100 else ">=100"))
        if nb >= 2:
            H.distinct(H.code_key(code))

    D.drive(shard, "C13", on_decoded, "C13.partition", variants=3, stress_same=D.same_shape)
