# C09 - decoded data carries no redundant override information.
# Deciding monitors: (i) invariant at the hook where the decoder's state advances
# (_blocks.ToArgs.found_index); (ii) post-condition on every _code_data.to_code_data call with
# first-use ranks recomputed from dis and the *removal experiment* through the real encoder;
# (iii) additional arguments == exactly the unreferenced table entries.
from __future__ import print_function

RULE = ("one evaluation = one decoded code object: every table entry's override is compared with its first-use rank from dis "
        "(parameters and a docstring first); an override at position==rank is judged by the removal experiment (dataclasses."
        "replace on all uses, real to_code, strict comparison); additional args compared with the unreferenced entries; "
        "non-trivial = code object with >=2 referenced table entries; distinct = md5 of bytecode+tables")
DECIDING = ["checks:C09.overrides", "checks:C09.found_index_hook"]
EVAL_COUNTER = "evaluations"
ASSUMPTIONS = ["first-use order is computed from dis.get_instructions of the same interpreter",
               "at most 24 removal experiments per code object (seeded sample beyond that)"]
TIMEOUT = {"quick": 900, "thorough": 7200}
MAX_EXPERIMENTS = 24


def plan(ctx):
    import planlib as P
    shards = []
    k = P.per_interp_shards(ctx)
    for v in ctx.producers:
        if ctx.tier == "quick":
            cases = P.corpus_cases(ctx, v, n_files=300, n_extra=40, n_w3=120, modes=30, max_file_bytes=200000)
        else:
            cases = P.corpus_cases(ctx, v, all_files=True, all_extra=True, n_w3=1000, modes=150)
        shards.extend(P.split(ctx, v, cases, k, "C09:"))
    return shards


TABLES = ("names", "varnames", "cellvars", "consts")


def first_use(code):
    """(ranks, used_order) per table from dis; ranks: index -> rank; parameters / docstring pre-seeded."""
    import hcommon as H
    import decode_oracles as D
    fl = code.co_flags
    order = dict((t, []) for t in TABLES)
    seen = dict((t, set()) for t in TABLES)

    def use(t, i):
        if i not in seen[t]:
            seen[t].add(i)
            order[t].append(i)
    if (fl & 3) == 3:
        nparams = code.co_argcount + code.co_kwonlyargcount + bool(fl & 4) + bool(fl & 8)
        for i in range(nparams):
            use("varnames", i)
        if code.co_consts and isinstance(code.co_consts[0], str):
            use("consts", 0)
    ncell = len(code.co_cellvars)
    uses = []  # per folded instruction: (table, index) or None
    for f in H.folded_instructions(code):
        op = f["opcode"]
        t = None
        if op in D.HASNAME:
            t = "names"
        elif op in D.HASLOCAL:
            t = "varnames"
        elif op in D.HASFREE:
            t = "cellvars" if f["arg"] < ncell else None
        elif op in D.HASCONST:
            t = "consts"
        if t is None:
            uses.append(None)
        else:
            use(t, f["arg"])
            uses.append((t, f["arg"]))
    used = dict((t, list(order[t])) for t in TABLES)
    sizes = {"names": len(code.co_names), "varnames": len(code.co_varnames), "cellvars": ncell, "consts": len(code.co_consts)}
    # unreferenced entries are appended in index order, table by table
    unref = {}
    for t in TABLES:
        unref[t] = [i for i in range(sizes[t]) if i not in seen[t]]
        for i in unref[t]:
            order[t].append(i)
    ranks = dict((t, dict((i, r) for r, i in enumerate(order[t]))) for t in TABLES)
    return ranks, uses, unref, used


ARGCLS = {"names": "Name", "varnames": "Varname", "cellvars": "Cellvar", "consts": "Constant"}


def run(shard):
    import dataclasses
    import hcommon as H
    import decode_oracles as D
    H.import_repo()
    _blocks = H.lib("_blocks")
    holder = {}

    # (i) invariant at the hook: found_index must report an override iff index != number of
    #     distinct indices seen before it (monitor keeps its own shadow order per ToArgs instance)
    shadow = {}

    def fi_pre(a, k, depth):
        self, index = a[0], a[1]
        st = shadow.get(id(self))
        if st is None or st[0] is not self:
            st = (self, dict((i, o) for i, o in self._index_to_order.items()))
            shadow[id(self)] = st
            if len(shadow) > 64:
                for key in list(shadow)[:32]:
                    del shadow[key]
        mine = st[1]
        if index not in mine:
            mine[index] = len(mine)
        return mine[index]

    def fi_post(a, k, res, exc, depth, rank):
        if exc is not None:
            return
        H.count("checks:C09.found_index_hook")
        index = a[1]
        override = res[1]
        if override is not None and override != index:
            H.violation("C09", "ToArgs.found_index", "override value", holder.get("case"),
                        "found_index(%d) returned override %r" % (index, override))
        elif override is not None and index == rank:
            # may still be justified (duplicate key); decided by the removal experiment in (ii)
            H.count("hook:override_at_rank")
        elif override is None and index != rank:
            H.violation("C09", "ToArgs.found_index", "missing override", holder.get("case"),
                        "found_index(%d): entry is the %d-th distinct entry seen but carries no override" % (index, rank))

    H.Monitor(_blocks.ToArgs, "found_index", pre=fi_pre, post=fi_post).install()

    def entry_override(arg):
        return getattr(arg, "_index_override", None)

    def on_decoded(code, cd, case, report):
        holder["case"] = case
        H.count("evaluations")
        H.count("checks:C09.overrides")
        ranks, uses, unref, used = first_use(code)
        flat = D.flatten(cd)
        if len(flat) != len(uses):
            return  # C02's business
        nref = sum(len(used[t]) for t in TABLES)
        if nref >= 2:
            H.distinct(H.code_key(code))
        suspicious = {}  # (table, index) -> override, where position == rank
        n_over = 0
        for ins, u in zip(flat, uses):
            if u is None:
                continue
            t, idx = u
            if type(ins.arg).__name__ != ARGCLS[t]:
                continue
            ov = entry_override(ins.arg)
            if ov is not None:
                n_over += 1
                if ov != idx:
                    report("override value", "%s[%d] used with override %r" % (t, idx, ov))
                elif ranks[t][idx] == idx:
                    suspicious[(t, idx)] = ov
                else:
                    H.count("justified_override_uses")
        # (iii) additional args are exactly the unreferenced entries
        tables = {"names": code.co_names, "varnames": code.co_varnames, "cellvars": code.co_cellvars, "consts": code.co_consts}
        add = dict((t, []) for t in TABLES)
        for a in cd._additional_args:
            for t in TABLES:
                if type(a).__name__ == ARGCLS[t]:
                    add[t].append(a)
        for t in TABLES:
            want = unref[t]
            got = add[t]
            ok = len(want) == len(got)
            if ok:
                for i, a in zip(want, got):
                    val = getattr(a, {"names": "name", "varnames": "varname", "cellvars": "cellvar", "consts": "constant"}[t])
                    orig = tables[t][i]
                    if t == "consts":
                        if not D.const_matches(val, orig, holder["CodeData"]):
                            ok = False
                    elif val != orig:
                        ok = False
                    ov = entry_override(a)
                    if ov is not None and ov != i:
                        ok = False
                    if ov is not None and ov == i and ranks[t][i] == i:
                        suspicious[("+" + t, i)] = ov
            if not ok:
                report("additional args", "table %s: unreferenced indices %s, additional args %s" % (
                    t, want[:10], H.short(got, 300)))
            if want:
                H.feature("has_unreferenced:" + t)
        H.count("override_uses", n_over)
        if not suspicious:
            if n_over == 0 and not cd._additional_args:
                H.feature("decoded_without_any_override")
            return
        # removal experiment for overrides sitting at position == rank
        keys = sorted(suspicious)
        if len(keys) > MAX_EXPERIMENTS:
            r = H.rng_for(shard.get("seed", 0), "c09", code.co_name, code.co_firstlineno)
            keys = r.sample(keys, MAX_EXPERIMENTS)
        # (to_code never re-enters to_code_data, so the experiment is not itself observed)
        for key in keys:
            t, idx = key
            H.count("removal_experiments")
            try:
                cd2 = remove_override(cd, flat, uses, t, idx, dataclasses)
                back = cd2.to_code()
                same = not H.strict_diff(code, back, limit=1)
            except Exception:
                same = False
            if same:
                report("redundant override", "%s[%d] carries _index_override=%d although that is its first-use rank and "
                       "re-encoding without it reproduces the code object exactly" % (t, idx, idx))
            else:
                H.count("override_justified_by_experiment")

    def remove_override(cd, flat, uses, t, idx, dataclasses):
        if t.startswith("+"):
            tt = t[1:]
            new_add = []
            for a in cd._additional_args:
                if type(a).__name__ == ARGCLS[tt] and getattr(a, "_index_override", None) == idx:
                    a = dataclasses.replace(a, _index_override=None)
                new_add.append(a)
            return dataclasses.replace(cd, _additional_args=tuple(new_add))
        new_blocks = []
        k = 0
        for block in cd.blocks:
            nb = []
            for ins in block:
                if uses[k] == (t, idx) and getattr(ins.arg, "_index_override", None) is not None:
                    ins = dataclasses.replace(ins, arg=dataclasses.replace(ins.arg, _index_override=None))
                nb.append(ins)
                k += 1
            new_blocks.append(tuple(nb))
        return dataclasses.replace(cd, blocks=tuple(new_blocks))

    holder["CodeData"] = H.lib("CodeData")
    D.drive(shard, "C09", on_decoded, "C09.decoded", variants=3, stress_same=D.same_whole)
