# C01 - code -> data -> code is lossless in every field.
# Deciding monitor: post-condition on the outermost _code_data.to_code_data call:
# the real from_code_data is run on the result and compared attribute by attribute,
# type- and bit-exactly, recursively, with the input code object.
from __future__ import print_function

RULE = ("one evaluation = one code object (nested ones included) strictly compared after "
        "from_code -> to_code; non-trivial = has >=1 jump, or >=2 line-table entries, or nested code; "
        "distinct = md5 of bytecode + line table + names/varnames/flags/name/firstlineno")
DECIDING = ["checks:C01.roundtrip"]
EVAL_COUNTER = "evaluations"
ASSUMPTIONS = [
    "programs are compiled with compile(source, filename, mode, optimize=..., dont_inherit=True) on the real 3.7-3.10 interpreters",
    "files that the interpreter cannot compile are skipped and counted",
]
TIMEOUT = {"quick": 900, "thorough": 7200}


def plan(ctx):
    import planlib as P
    shards = []
    k = P.per_interp_shards(ctx)
    for v in ctx.producers:
        if ctx.tier == "quick":
            cases = P.corpus_cases(ctx, v, n_files=500, n_extra=60, n_w3=200, modes=60, max_file_bytes=300000)
        else:
            cases = P.corpus_cases(ctx, v, all_files=True, all_extra=True, n_w3=1500, modes=400)
        shards.extend(P.split(ctx, v, cases, k, "C01:"))
    return shards


def _lnotab_entries(lt):
    out = []
    addr = 0
    for i in range(0, len(lt), 2):
        addr += lt[i]
        d = lt[i + 1]
        out.append((addr, d - 256 if d > 127 else d))
    return out


def lnotab_mid_instruction(code):
    """<=3.9: cumulative addresses of lnotab entries that land on a code-unit boundary strictly
    inside an EXTENDED_ARG-prefixed instruction, and the start of the instruction that follows."""
    import hcommon as H
    inside = {}
    for f in H.folded_instructions(code):
        if f["nunits"] > 1:
            for o in range(f["start"] + 2, f["offset"] + 2, 2):
                inside[o] = f["offset"] + 2
    mids, nexts = set(), set()
    for addr, _d in _lnotab_entries(code.co_lnotab):
        if addr in inside:
            mids.add(addr)
            nexts.add(inside[addr])
    return mids, nexts


def classify(pairs):
    """Mechanism key for a strict difference, or None.

    F-C01a: only co_lnotab differs, the original table has entries landing strictly inside an
    EXTENDED_ARG-prefixed instruction, every entry at any other address is reproduced unchanged and
    in order, and CPython assigns every instruction start the same line in both code objects."""
    import hcommon as H
    if H.IS310 or not pairs:
        return None
    for path, a, b, attrs in pairs:
        if attrs != ["co_lnotab"]:
            return None
        mids, nexts = lnotab_mid_instruction(a)
        if not mids:
            return None
        affected = mids | nexts
        ea = [e for e in _lnotab_entries(a.co_lnotab) if e[0] not in affected]
        eb = [e for e in _lnotab_entries(b.co_lnotab) if e[0] not in affected]
        if ea != eb:
            return None
        fa = H.folded_instructions(a)
        if [H.addr2line(a, f["start"]) for f in fa] != [H.addr2line(b, f["start"]) for f in fa]:
            return None
    return "lnotab-entry-inside-extended-arg-instruction"


def run(shard):
    import dis
    import hcommon as H
    import corpus
    cd = H.import_repo()
    _code_data = H.lib("_code_data")

    state = {"case": None}
    jump_ops = set(dis.hasjabs) | set(dis.hasjrel)

    def post(a, k, res, exc, depth, snap):
        if depth != 0:
            return
        code = a[0]
        case = state["case"]
        if exc is not None:
            H.count("checks:C01.roundtrip")
            H.violation("C01", "to_code_data", "from_code raises on compiler output", case,
                        "%s: %s" % (type(exc).__name__, exc))
            return
        try:
            back = res.to_code()
        except Exception as e:
            H.count("checks:C01.roundtrip")
            H.violation("C01", "from_code_data", "to_code raises on decoded data", case,
                        "%s: %s" % (type(e).__name__, e))
            return
        H.count("checks:C01.roundtrip")
        pairs = []
        diffs = H.strict_diff(code, back, pairs=pairs)
        n = 0
        for c, _d in H.iter_code(code):
            n += 1
            lt = getattr(c, H.LINE_ATTR)
            b = c.co_code
            nontrivial = len(lt) >= 4 or any(isinstance(x, H.CodeType) for x in c.co_consts) or \
                any(b[i] in jump_ops for i in range(0, len(b), 2))
            if nontrivial:
                H.distinct(H.code_key(c))
            if len(b) > 510:
                H.feature("code>255units")
            if dis.EXTENDED_ARG in b[::2]:
                H.feature("has_extended_arg")
        H.count("evaluations", n)
        if diffs:
            mech = classify(pairs)
            H.violation("C01", "to_code_data+from_code_data", "strict round-trip difference", case,
                        {"diffs": diffs[:6]}, mech)

    H.Monitor(_code_data, "to_code_data", post=post).install()

    for case, id_, code, text in corpus.iter_cases(shard):
        state["case"] = corpus.replay_case(case)
        try:
            cd.CodeData.from_code(code)
        except Exception:
            pass  # recorded by the monitor
        if H._counters.get("cases", 0) <= 3:
            H.sample({"id": id_, "source_head": H.short(text if isinstance(text, str) else text.decode("utf-8", "replace"), 160)})
