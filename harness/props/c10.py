# C10 - line-table codec agrees with CPython for everything its assembler can emit.
# Deciding monitors: wrappers on _line_mapping.to_line_mapping / from_line_mapping + driver.  Decode direction:
# every code-unit offset of the decoded mapping is compared with CPython's own reader (PyCode_Addr2Line, and
# co_lines() on 3.10) - valid for any byte table.  Encode direction: from_line_mapping(to_line_mapping(c)) must be
# the table byte for byte, demanded for tables emitted by the real compiler (W1-W4) and by the assembler models
# (W7; failures there are labelled model_emitted; the models' fidelity against real tables is measured per run).
from __future__ import print_function

RULE = ("one evaluation = one line table (model-emitted on a synthetic code object, or found in compiled code) decoded under the "
        "monitor (every code-unit offset vs PyCode_Addr2Line) and re-encoded (byte equality); non-trivial = table with >=2 entries; "
        "distinct = md5 of (table bytes, code length, first line)")
DECIDING = ["checks:C10.decode_vs_cpython", "checks:C10.reencode_bytes"]
EVAL_COUNTER = "evaluations"
ASSUMPTIONS = ["assembler models (ports of assemble_lnotab 3.7/3.8 and 3.9, the peephole lnotab fix-up, 3.10 assemble_line_range) are only "
               "workload generators; their fidelity is measured on each run by regenerating real compiled tables from per-instruction lines",
               "the decode direction is judged against CPython's reader only"]
TIMEOUT = {"quick": 1200, "thorough": 7200}


def plan(ctx):
    import planlib as P
    shards = []
    k = P.per_interp_shards(ctx)
    for v in ctx.producers:
        if ctx.tier == "quick":
            cases = P.corpus_cases(ctx, v, n_files=300, n_extra=40, n_w3=120, modes=30, max_file_bytes=200000)
            nmodel = 12000
        else:
            cases = P.corpus_cases(ctx, v, all_files=True, all_extra=True, n_w3=1500, modes=200)
            nmodel = 60000
        shards.extend(P.split(ctx, v, cases, k, "C10:", extra={"nmodel": nmodel // k}))
    return shards


def run(shard):
    import hashlib
    import hcommon as H
    import corpus
    import gen_lines
    import lnotab_models as M
    cdm = H.import_repo()
    _line_mapping, _code_data = H.lib("_line_mapping", "_code_data")
    CodeData = cdm.CodeData
    state = {"case": None, "origin": None}

    def viol(clause, detail, mech=None):
        H.violation("C10", "line_mapping", clause, dict(state["case"], origin=state["origin"]), detail, mech)

    # ---- monitors
    def to_post(a, k, res, exc, depth, snap):
        code = a[0]
        H.count("checks:C10.decode_vs_cpython")
        if exc is not None:
            viol("to_line_mapping raises", "%s: %s" % (type(exc).__name__, exc), mech_for(code))
            return
        first = code.co_firstlineno
        bad = []
        colines = H.colines_lookup(code) if H.IS310 else None
        lookup = H.line_lookup(code)
        for off in range(0, len(code.co_code), 2):
            want = lookup(off)
            if colines is not None and colines.get(off, "absent") != want:
                H.count("reference_disagreement:addr2line_vs_co_lines")
            got = res.offset_to_line.get(off, "missing")
            if got not in (None, "missing"):
                got = got + first
            if got != want:
                bad.append((off, got, want))
                if len(bad) >= 4:
                    break
        if bad:
            viol("decoded line differs from CPython's reader",
                 "table %s (code %d bytes, first line %d): (offset, decoded, CPython) %s" % (
                     H.short(list(getattr(code, H.LINE_ATTR)), 300), len(code.co_code), first, bad), mech_for(code))

    def mech_for(code):
        return None

    tm = H.Monitor(_line_mapping, "to_line_mapping", post=to_post).install(also=[_code_data])
    fm = H.Monitor(_line_mapping, "from_line_mapping").install(also=[_code_data])

    def check_table(code):
        table = getattr(code, H.LINE_ATTR)
        H.count("evaluations")
        if len(table) >= 4:
            H.distinct(hashlib.md5(table + repr((len(code.co_code), code.co_firstlineno)).encode()).digest())
        try:
            m = _line_mapping.to_line_mapping(code)
        except Exception:
            return
        H.count("checks:C10.reencode_bytes")
        try:
            back = _line_mapping.from_line_mapping(m)
        except Exception as e:
            viol("from_line_mapping raises", "%s: %s on table %s" % (type(e).__name__, e, H.short(list(table), 300)))
            return
        try:
            again = _line_mapping.from_line_mapping(m)
        except Exception as e:
            again = "raised %s: %s" % (type(e).__name__, e)
        if again != back:
            viol("re-encoding the same decoded mapping a second time gives a different table",
                 "first %s second %s" % (H.short(list(back), 200), H.short(list(again) if isinstance(again, bytes) else again, 200)))
        # a rejected request on the decoded mapping (its own methods, called at the wrong moment or with the wrong offset) must
        # leave it the decoded mapping: it still re-encodes to the table
        H.count("checks:C10.rejected_request")
        try:
            m2 = _line_mapping.to_line_mapping(code)
            rejected = 0
            for off in (len(code.co_code), 0, len(code.co_code) + 2):
                try:
                    m2.pop_additional_line(off)
                except Exception:
                    rejected += 1
                    back2 = _line_mapping.from_line_mapping(m2)
                    if back2 != back:
                        viol("a rejected request changes the decoded mapping", "after pop_additional_line(%d) raised, the mapping re-encodes to %s... instead of %s..." % (
                            off, list(back2[:16]), list(back[:16])))
                        break
                else:
                    break       # the request was served: the mapping legitimately changed
            if rejected:
                H.count("rejected_requests", rejected)
        except Exception as e:
            H.count("skipped:rejected_request:" + type(e).__name__)
        if back != table:
            stage = localise(code, table)
            i = 0
            while i < min(len(back), len(table)) and back[i] == table[i]:
                i += 1
            i -= i % 2
            viol("re-encoded table differs", "table %s... re-encoded %s... (first difference at byte %d of %d/%d; code %d bytes; first stage "
                 "whose inverse fails: %s)" % (list(table[max(0, i - 4):i + 8]), list(back[max(0, i - 4):i + 8]), i, len(table), len(back),
                                               len(code.co_code), stage))

    def localise(code, table):
        """Which stage pair (bytes<->items, collapse<->expand, items<->mapping) is the first not to invert?  (diagnostic only)"""
        try:
            L = _line_mapping
            items = L.bytes_to_items(table)
            if L.items_to_bytes(items) != table:
                return "bytes_to_items/items_to_bytes"
            col = L.collapse_items(items, L.USE_LINETABLE)
            if L.expand_items(L.collapse_items(L.bytes_to_items(table), L.USE_LINETABLE), L.USE_LINETABLE) != items:
                return "collapse_items/expand_items"
            m = L.items_to_mapping(col, len(code.co_code), L.USE_LINETABLE)
            if L.mapping_to_items(m, L.USE_LINETABLE) != col:
                return "items_to_mapping/mapping_to_items"
            return "none (composition only)"
        except Exception as e:
            return "stage raised %s" % type(e).__name__

    # ---- W7g: one source line that compiles to hundreds of kilobytes of code (a 300 000 element display): a single entry whose
    #      bytecode gap needs ~1000 and ~2400 full-range pieces
    if shard.get("nmodel", 0) and shard.get("shard", 0) == 0:
        import lnotab_models as M_
        for giant in (140000, 300000):
            instrs = [(1, 5)] * 3 + [(1, 6)] * giant + [(1, 8)] * 2
            try:
                table = M_.linetable_310(instrs, 5) if H.IS310 else M_.lnotab_39(instrs, 5)
                code = gen_lines.make_code(table, len(instrs), 5)
            except Exception as e:
                H.count("skipped:giant:" + type(e).__name__)
                continue
            state["case"] = {"k": "w7", "id": "w7g:%d" % giant, "table": list(table)[:40], "n_units": len(instrs), "firstlineno": 5,
                             "stage": "giant-run", "program": "3x5 %dx6 2x8" % giant, "giant": giant}
            state["origin"] = "model_emitted:giant-run"
            H.count("model_tables")
            H.feature("stage:giant-run")
            import sys as _sys
            old_limit = _sys.getrecursionlimit()
            _sys.setrecursionlimit(1000)          # the interpreter's default (workers otherwise run with 5000)
            try:
                check_table(code)
            finally:
                _sys.setrecursionlimit(old_limit)
    # ---- W7: model-emitted tables
    rng = H.rng_for(shard.get("seed", 0), "w7", shard.get("shard", 0))
    for n in range(shard.get("nmodel", 0)):
        t = gen_lines.model_table(rng, H.IS310)
        state["case"] = {"k": "w7", "id": "w7:%d:%d" % (shard.get("shard", 0), n), "table": list(t["table"])[:400], "n_units": t["n_units"],
                         "firstlineno": t["firstlineno"], "stage": t["stage"], "program": t["program"]}
        state["origin"] = "model_emitted:" + t["stage"]
        try:
            code = gen_lines.make_code(t["table"], t["n_units"], t["firstlineno"])
        except Exception as e:
            H.count("skipped:make_code:" + type(e).__name__)
            continue
        H.count("model_tables")
        H.feature("stage:" + t["stage"])
        check_table(code)
        if n % 5 == 0:
            # through the whole pipeline as well (bytecode is 1-unit NOPs, so the instruction layer cannot blur the verdict)
            tm.enabled = fm.enabled = False
            try:
                back = CodeData.from_code(code).to_code()
                if getattr(back, H.LINE_ATTR) != t["table"]:
                    viol("full pipeline re-encodes the table differently", "table %s -> %s" % (
                        H.short(list(t["table"]), 200), H.short(list(getattr(back, H.LINE_ATTR)), 200)))
                H.count("pipeline_tables")
            except Exception as e:
                viol("full pipeline raises", "%s: %s" % (type(e).__name__, e))
            finally:
                tm.enabled = fm.enabled = True
        if n < 3:
            H.sample(state["case"])
    for tb in shard.get("tables", []):   # replay
        state["case"] = tb
        state["origin"] = "replay"
        code = gen_lines.make_code(bytes(bytearray(tb["table"])), tb["n_units"], tb["firstlineno"])
        check_table(code)

    # ---- real tables + model fidelity
    import dis
    stress_items = []
    for case, id_, code, text in corpus.iter_cases(shard):
        state["case"] = corpus.replay_case(case)
        state["origin"] = "compiler_emitted"
        for c, _d in H.iter_code(code):
            if len(stress_items) < 40 and 8 <= len(getattr(c, H.LINE_ATTR)) <= 400:
                stress_items.append((dict(state["case"], code_name=c.co_name), c))
            H.count("real_tables")
            check_table(c)
            # fidelity of the assembler model on this table
            folded = H.folded_instructions(c)
            instrs = [(f["nunits"], H.addr2line(c, f["start"])) for f in folded]
            if H.IS310:
                mt = M.linetable_310(instrs, c.co_firstlineno)
            else:
                if any(l is None for _s, l in instrs):
                    continue
                mt = M.lnotab_39(instrs, c.co_firstlineno)
            H.count("model_validation_tables")
            if mt == getattr(c, H.LINE_ATTR):
                H.count("model_validation_matches")

    if len(stress_items) >= 2:
        # the codec again, re-entrantly and from several threads: the re-encoded table must not depend on the interleaving
        import stress
        rng = H.rng_for(shard.get("seed", 0), "stress", shard.get("shard", 0))
        if len(stress_items) > 10:
            stress_items = rng.sample(stress_items, 10)

        def codec(c):
            m = _line_mapping.to_line_mapping(c)
            return (sorted(m.offset_to_line.items()), _line_mapping.from_line_mapping(m))

        def same(a, b):
            if a[0] != b[0]:
                return "decoded mapping differs"
            if a[1] != b[1]:
                return "re-encoded table %s vs %s" % (list(a[1][:24]), list(b[1][:24]))
            return None
        stress.stress("C10", stress_items, codec, same, rng, label="to_line_mapping + from_line_mapping")


def offline(ctx, results):
    c = {}
    for r in results:
        for rec in r["records"]:
            if rec.get("t") == "summary":
                for k in ("model_validation_tables", "model_validation_matches"):
                    c[k] = c.get(k, 0) + rec["counters"].get(k, 0)
    return {"extra": {"traces_validated_against_impl": c.get("model_validation_matches", 0),
                      "model_validation": {"real_tables_regenerated": c.get("model_validation_tables", 0),
                                           "byte_identical": c.get("model_validation_matches", 0)}}}


def replay_shard(v):
    c = v["case"]
    s = {"interp": v["interp"], "label": "replay", "tier": "quick", "seed": 0, "cases": [], "nmodel": 0}
    if c.get("k") == "w7" and c.get("giant"):
        s["nmodel"] = 1
        s["shard"] = 0
    elif c.get("k") == "w7":
        s["tables"] = [c]
    else:
        s["cases"] = [dict((k, x) for k, x in c.items() if k != "origin")]
    return s
