# C12 - API calls are pure: no input mutation, repeatable, no shared mutable state.
# Deciding monitors: pre/post snapshots on the five API methods (class attributes of CodeData, so every
# nesting level of from_code/to_code is seen) + a history driver that repeats and interleaves calls on a
# shared pool of objects and clobbers returned / consumed JSON documents in place.
from __future__ import print_function

RULE = ("one evaluation = one monitored API call whose argument snapshot (canonical JSON dump for documents, structural "
        "type-exact fingerprint for CodeData) is compared before/after, plus the driver's repeat/clobber comparisons; "
        "non-trivial = program with >=1 nested code object or >=1 non-trivial constant; distinct = (program id, history) digest")
DECIDING = ["checks:C12.arg_unchanged", "checks:C12.repeat", "checks:C12.clobber"]
EVAL_COUNTER = "evaluations"
ASSUMPTIONS = ["code objects are immutable from Python, so their snapshot is only taken at depth 0",
               "JSON documents are compared through json.dumps(sort_keys=True), which is type-exact for JSON types"]
TIMEOUT = {"quick": 1200, "thorough": 7200}


def plan(ctx):
    import planlib as P
    shards = []
    k = P.per_interp_shards(ctx)
    for v in ctx.producers:
        if ctx.tier == "quick":
            cases = P.corpus_cases(ctx, v, n_w9=0, n_files=10, n_w3=30, modes=2, max_file_bytes=12000, w3_size=0.6, w1_max_bytes=30000,
                                   w4_filter=lambda i: i.startswith(("sig-", "doc-", "const-", "dead-", "future-", "eval", "single", "opt", "comp", "class", "fold-tuple-5")))
            cases += P.w9_cases(ctx, 96)
        else:
            cases = P.corpus_cases(ctx, v, n_w9=0, n_files=300, n_w3=600, modes=30, max_file_bytes=60000, w1_max_bytes=150000, max_w4_bytes=40000)
            cases += P.w9_cases(ctx, 2400)
        shards.extend(P.split(ctx, v, cases, k, "C12:", extra={"docs": True}))
        # light pass over a much larger corpus: every call made twice on the same argument, results compared
        if ctx.tier == "quick":
            light = P.corpus_cases(ctx, v, n_files=80, n_w3=0, modes=6, w1=False, w4=True, max_file_bytes=150000, max_w4_bytes=100000)
        else:
            light = P.corpus_cases(ctx, v, all_files=True, n_w3=0, modes=100, w1=False, w4=True)
        shards.extend(P.split(ctx, v, light, k, "C12:light:", extra={"light": True}))
    return shards


_FIELDS = {}


def H_srepr(x):
    import hcommon
    return hcommon.short(x, 200)


def data_fp(x, dc):
    """Structural, type-exact fingerprint of frozen data (mutable containers are kept visible)."""
    import struct
    t = type(x)
    names = _FIELDS.get(t)
    if names is None and hasattr(t, "__dataclass_fields__"):
        names = _FIELDS[t] = tuple(f.name for f in dc.fields(t))
    if names is not None:
        return (t.__name__,) + tuple(data_fp(getattr(x, n), dc) for n in names)
    if t is str:
        return x
    if t is int or x is None or t is bool:
        return (t.__name__, x)
    if t is tuple:
        return ("t",) + tuple(data_fp(i, dc) for i in x)
    if t is frozenset:
        return ("fs",) + tuple(sorted((data_fp(i, dc) for i in x), key=H_srepr))
    if t is list:
        return ("LIST",) + tuple(data_fp(i, dc) for i in x)
    if t is dict:
        return ("DICT",) + tuple(sorted(((repr(k), data_fp(v, dc)) for k, v in x.items())))
    if t is set:
        return ("SET",) + tuple(sorted((data_fp(i, dc) for i in x), key=H_srepr))
    if t is float:
        return ("f", struct.pack("<d", x))
    if t is complex:
        return ("c", struct.pack("<d", x.real), struct.pack("<d", x.imag))
    if x is Ellipsis:
        return ("...",)
    return (t.__name__, x)


def _type_diff(a, b, path="$"):
    """First path at which two structural fingerprints differ."""
    if type(a) is not type(b) or not isinstance(a, tuple):
        return "%s: %s vs %s" % (path, H_srepr(a), H_srepr(b)) if a != b else None
    if len(a) != len(b) or (a and b and a[0] != b[0] and isinstance(a[0], str)):
        return "%s: %s(%d items) vs %s(%d items)" % (path, a[0] if a else "?", len(a), b[0] if b else "?", len(b))
    for i, (x, y) in enumerate(zip(a, b)):
        if x != y:
            r = _type_diff(x, y, "%s/%d" % (path, i))
            if r:
                return r
    return None


def clobber(doc, rng):
    """Mutate every list and dict inside a JSON document in place."""
    n = 0
    stack = [doc]
    while stack:
        d = stack.pop()
        if isinstance(d, dict):
            for v in list(d.values()):
                if isinstance(v, (dict, list)):
                    stack.append(v)
            for k in list(d.keys()):
                c = rng.randrange(4)
                if c == 0:
                    del d[k]
                elif c == 1:
                    d[k] = "CLOBBERED"
            d["__clobber__"] = [1]
            n += 1
        elif isinstance(d, list):
            for v in d:
                if isinstance(v, (dict, list)):
                    stack.append(v)
            c = rng.randrange(3)
            if c == 0:
                del d[:]
            elif c == 1:
                d.reverse()
                d.append({"clobbered": True})
            else:
                d.insert(0, "CLOBBERED")
            n += 1
    return n


def run(shard):
    import copy
    import dataclasses as dc
    import hashlib
    import json
    import hcommon as H
    import corpus
    cdm = H.import_repo(json_only=shard.get("role") == "json_only")
    CodeData = cdm.CodeData
    state = {"case": None, "hist": []}

    def canon(doc):
        # frozenset element lists are unordered by nature (their listing order follows set iteration order)
        return H.canon_json(doc)

    def viol(monitor, clause, detail):
        H.violation("C12", monitor, clause, dict(state["case"] or {"k": "storm", "id": "fault-storm"}, history=" ".join(state["hist"][-12:])), detail)

    # ---- interpreter-wide state must not be changed by an API call ------------------------------
    import sys as _sys
    import warnings as _warnings
    import os as _os

    import dis as _dis
    import gc as _gc
    _dis_lists = [getattr(_dis, n) for n in ("hasconst", "hasname", "hasjrel", "hasjabs", "haslocal", "hascompare", "hasfree", "cmp_op") if hasattr(_dis, n)]

    def lib_globals():
        """The library's own module globals: which names exist, which object each is bound to, how long each container is.
        A pure API call leaves no trace there (no registers, work lists or registries at module level)."""
        out = []
        for mname in sorted(m for m in list(_sys.modules) if m == H.LIBNAME or m.startswith(H.LIBNAME + ".")):
            mod = _sys.modules.get(mname)
            d = getattr(mod, "__dict__", None)
            if not d:
                continue
            for k_, v_ in d.items():
                if k_.startswith("__") and k_.endswith("__"):
                    continue
                out.append((mname, k_, id(v_), len(v_) if type(v_) in (list, dict, set, bytearray) else -1, type(v_).__name__ == "module"))
        return tuple(out)

    def lib_globals_changed(a_, b_):
        """Names of the library's module globals that an API call rebound, resized, removed or created.  Importing one of the
        library's own submodules on first use is initialisation, not state: modules that were not loaded before the call
        and the attribute that binds a freshly imported submodule are left out."""
        if a_ == b_:
            return []
        da, db = dict(((x[0], x[1]), x[2:]) for x in a_), dict(((x[0], x[1]), x[2:]) for x in b_)
        mods_before = set(x[0] for x in a_)
        ch = []
        for k_ in set(da) | set(db):
            if k_[0] not in mods_before:
                continue
            if k_ not in da and db[k_][2]:
                continue
            if da.get(k_) != db.get(k_):
                ch.append("%s.%s" % k_)
        return sorted(ch)

    def global_state():
        return (_sys.getrecursionlimit(), getattr(_sys, "get_int_max_str_digits", lambda: None)(), len(_sys.path), len(_warnings.filters),
                _os.getcwd(), _sys.getswitchinterval(), len(_os.environ), _sys.gettrace() is None,
                (_gc.isenabled(), _gc.get_threshold(), _gc.get_debug()), _sys.getprofile() is None, _sys.dont_write_bytecode,
                hash(frozenset(_dis.opmap.items())), hash(tuple(_dis.opname)), tuple(tuple(l_) for l_ in _dis_lists),
                lib_globals())

    def describe_global_change(g, g2):
        names = ["recursion limit", "int_max_str_digits", "len(sys.path)", "warning filters", "cwd", "switch interval", "len(environ)",
                 "no trace function", "gc (enabled, thresholds, debug)", "no profile function", "dont_write_bytecode", "dis.opmap", "dis.opname", "dis.has* lists", "module globals of the library"]
        out = []
        for n_, a_, b_ in zip(names, g, g2):
            if a_ != b_:
                if n_.startswith("module globals"):
                    ch = lib_globals_changed(a_, b_)
                    if ch:
                        out.append("%s: %s (rebound, added, removed or resized)" % (n_, ", ".join(ch[:8])))
                elif n_.startswith("dis."):
                    out.append("%s changed" % n_)
                else:
                    out.append("%s: %r -> %r" % (n_, a_, b_))
        return "; ".join(out)

    def with_global(pre, post, name):
        def pre2(a, k, depth):
            return (pre(a, k, depth), global_state() if depth == 0 else None)

        def post2(a, k, res, exc, depth, snap):
            inner, g = snap if snap is not None else (None, None)
            if g is not None:
                H.count("checks:C12.global_state")
                g2 = global_state()
                if g2 != g:
                    desc = describe_global_change(g, g2)
                    if desc:
                        viol(name, "interpreter-wide state changed by the call", desc)
            post(a, k, res, exc, depth, inner)
        return pre2, post2

    # ---- monitors on the five API methods -------------------------------------------------------
    def pre_data(a, k, depth):
        return data_fp(a[0], dc) if depth == 0 else None

    def post_data(name):
        def post(a, k, res, exc, depth, snap):
            if snap is None:
                return
            H.count("checks:C12.arg_unchanged")
            H.count("evaluations")
            if data_fp(a[0], dc) != snap:
                viol(name, "argument mutated", "the CodeData passed to %s differs after the call" % name)
        return post

    def pre_json(a, k, depth):
        doc = a[1] if len(a) > 1 else k.get("json_data")
        try:
            # type-exact structural snapshot (a list turned into a tuple must be seen) + text for the witness
            return (data_fp(doc, dc), json.dumps(doc, sort_keys=True))
        except (TypeError, ValueError):
            return None

    def post_json(a, k, res, exc, depth, snap):
        if snap is None:
            return
        H.count("checks:C12.arg_unchanged")
        H.count("evaluations")
        doc = a[1] if len(a) > 1 else k.get("json_data")
        snap_fp, snap = snap
        try:
            now = json.dumps(doc, sort_keys=True)
        except (TypeError, ValueError) as e:
            now = "unserializable after the call: %r" % (e,)
        if now == snap and data_fp(doc, dc) != snap_fp:
            viol("from_json_data", "argument mutated", "the JSON document passed to from_json_data has the same JSON text after the call but "
                 "different container types (e.g. a list replaced by a tuple): %s" % H.short(_type_diff(snap_fp, data_fp(doc, dc)), 300))
        if now != snap:
            i = 0
            while i < min(len(now), len(snap)) and now[i] == snap[i]:
                i += 1
            viol("from_json_data", "argument mutated", "the JSON document passed to from_json_data differs after the call; "
                 "first difference at char %d: before ...%s  after ...%s" % (i, snap[max(0, i - 60):i + 60], now[max(0, i - 60):i + 60]))

    def pre_code(a, k, depth):
        return H.code_fp(a[1]) if depth == 0 else None

    def post_code(a, k, res, exc, depth, snap):
        if snap is None:
            return
        H.count("checks:C12.arg_unchanged")
        H.count("evaluations")
        if H.code_fp(a[1]) != snap:
            viol("from_code", "argument mutated", "code object differs after from_code")

    for _name, _pre, _post in (("from_code", pre_code, post_code), ("to_code", pre_data, post_data("to_code")),
                               ("normalize", pre_data, post_data("normalize")), ("to_json_data", pre_data, post_data("to_json_data")),
                               ("from_json_data", pre_json, post_json)):
        _p, _q = with_global(_pre, _post, _name)
        H.Monitor(CodeData, _name, pre=_p, post=_q, storm=True).install()

    # ---- history driver --------------------------------------------------------------------------
    def same_data(a, b):
        return a == b and data_fp(a, dc) == data_fp(b, dc)

    def call(label, fn, *args):
        state["hist"].append(label)
        try:
            return fn(*args), None
        except Exception as e:
            return None, e

    def repeat_check(label, first, again, kind):
        """first/again: (result, exc) pairs of the 1st and n-th call on the same argument."""
        H.count("checks:C12.repeat")
        H.count("evaluations")
        (r1, e1), (r2, e2) = first, again
        if (e1 is None) != (e2 is None):
            viol(label, "repeat call behaves differently", "first call: %r ; later call: %r" % (e1, e2))
            return
        if e1 is not None:
            return
        if kind == "data":
            ok = same_data(r1, r2)
        elif kind == "json":
            ok = canon(r1) == canon(r2)
        else:
            ok = not H.strict_diff(r1, r2, nan_ident=False)
        if not ok:
            viol(label, "repeat call result differs", "the n-th call on the same argument returned a different %s" % kind)

    docs_out = open(H._out.name + ".docs", "w") if shard.get("docs") else None
    docs_bytes = [0]
    if shard.get("light"):
        for case, id_, code, text in corpus.iter_cases(shard):
            state["case"] = corpus.replay_case(case)
            state["hist"] = ["D", "D", "E", "E", "J", "J", "N", "N"]
            try:
                x1 = CodeData.from_code(code)
                x2 = CodeData.from_code(code)
            except Exception:
                H.count("decode_raised")
                continue
            H.count("checks:C12.repeat", 4)
            H.count("evaluations", 4)
            if not same_data(x1, x2):
                viol("from_code", "repeat call result differs", "from_code(c) twice on the same code object gives different data")
            try:
                c1, c2 = x1.to_code(), x1.to_code()
                if H.strict_diff(c1, c2):
                    viol("to_code", "repeat call result differs", H.short(H.strict_diff(c1, c2)[:2], 300))
                j1, j2 = x1.to_json_data(), x1.to_json_data()
                if canon(j1) != canon(j2):
                    viol("to_json_data", "repeat call result differs", "to_json_data() twice gives different documents")
                n1, n2 = x1.normalize(), x1.normalize()
                if not same_data(n1, n2):
                    viol("normalize", "repeat call result differs", "normalize() twice gives different data")
            except Exception as e:
                viol("api", "call raises on valid argument", "%s: %s" % (type(e).__name__, H.short(e, 200)))
            if any(isinstance(k2, H.CodeType) for k2 in code.co_consts):
                H.distinct("light|" + id_)
        return
    if shard.get("role") == "json_only":
        run_json_only(shard, CodeData, H, dc, json, canon, viol, state, same_data, clobber)
        return
    stress_items = []
    for case, id_, code, text in corpus.iter_cases(shard):
        state["case"] = corpus.replay_case(case)
        if case["k"] == "w9":
            state["case"] = dict(case, id=id_)
        state["hist"] = []
        rng = H.rng_for(shard.get("seed", 0), "c12", id_)
        if len(stress_items) < 24 and 40 <= sum(len(c_.co_code) for c_, _d in H.iter_code(code)) <= 2500:
            stress_items.append((state["case"], code))
        # a third of the histories run in a process whose adjustable state is NOT the default: a call that puts a default back
        # instead of what it found is a change of the caller's state
        perturbed = rng.random() < 0.34
        if perturbed:
            H.count("perturbed_histories")
            saved = (_gc.isenabled(), _gc.get_threshold(), _sys.getrecursionlimit(), _sys.getswitchinterval(),
                     getattr(_sys, "get_int_max_str_digits", lambda: None)())
            _gc.disable()
            _gc.set_threshold(701, 11, 9)
            _sys.setrecursionlimit(saved[2] + 7)
            _sys.setswitchinterval(0.0041)
            if saved[4] is not None:
                _sys.set_int_max_str_digits(5000)
        try:
            x_first = call("D", CodeData.from_code, code)
            if x_first[1] is None:
                for op_ in ("E", "N", "J"):
                    r_ = call(op_ + "'", {"E": x_first[0].to_code, "N": x_first[0].normalize, "J": x_first[0].to_json_data}[op_])
                    if op_ == "J" and r_[1] is None:
                        call("L'", CodeData.from_json_data, r_[0])
        finally:
            if perturbed:
                (_gc.enable if saved[0] else _gc.disable)()
                _gc.set_threshold(*saved[1])
                _sys.setrecursionlimit(saved[2])
                _sys.setswitchinterval(saved[3])
                if saved[4] is not None:
                    _sys.set_int_max_str_digits(saved[4])
        if x_first[1] is not None:
            H.count("decode_raised")
            continue
        x = x_first[0]
        if docs_out is not None and docs_bytes[0] < (400 * 1024 if shard.get("tier") == "quick" else 4 * 1024 * 1024):
            try:
                line = json.dumps({"id": id_, "producer": H.PYTAG, "doc": x.to_json_data()})
                if len(line) < 60000:
                    docs_bytes[0] += len(line)
                    docs_out.write(line + "\n")
            except Exception:
                pass
        nested = sum(1 for _ in H.iter_code(code)) - 1
        # pool of repeatable operations on shared arguments
        firsts = {}
        ops = ["D", "E", "N", "J", "L", "L", "NE", "NJ"]
        plan_ = []
        for rep in range(rng.choice([2, 2, 3]) if shard.get("tier") == "quick" else rng.choice([2, 3, 4, 5])):
            o = list(ops)
            rng.shuffle(o)
            plan_.extend(o)
        doc_holder = {}
        for op in plan_:
            if op == "D":
                r = call("D", CodeData.from_code, code)
                kind = "data"
            elif op == "E":
                r = call("E", x.to_code)
                kind = "code"
            elif op == "N":
                r = call("N", x.normalize)
                kind = "data"
            elif op == "J":
                r = call("J", x.to_json_data)
                kind = "json"
                if r[1] is None:
                    # work on a snapshot; the live document is clobbered below
                    snap = canon(r[0])
                    if "snap" not in doc_holder:
                        doc_holder["snap"] = snap
                    H.count("checks:C12.clobber")
                    H.count("evaluations")
                    before = data_fp(x, dc)
                    clobber(r[0], rng)
                    if data_fp(x, dc) != before:
                        viol("to_json_data", "returned document shares state with the CodeData",
                             "mutating the returned JSON document changed the CodeData it came from")
                    r = (json.loads(snap), None)
            elif op == "L":
                if "snap" not in doc_holder:
                    continue
                if "doc" not in doc_holder:
                    doc_holder["doc"] = json.loads(doc_holder["snap"])   # the *same parsed document* is loaded repeatedly
                r = call("L", CodeData.from_json_data, doc_holder["doc"])
                kind = "data"
                if r[1] is None and rng.random() < 0.3:
                    # clobber a private copy that was loaded, then check the loaded value
                    d2 = json.loads(doc_holder["snap"])
                    y = CodeData.from_json_data(d2)
                    before = data_fp(y, dc)
                    H.count("checks:C12.clobber")
                    H.count("evaluations")
                    clobber(d2, rng)
                    if data_fp(y, dc) != before:
                        viol("from_json_data", "loaded CodeData shares state with the document",
                             "mutating the JSON document after from_json_data changed the loaded CodeData")
                    if r[0] is not None and not (y == r[0]):
                        viol("from_json_data", "repeat call result differs", "loading an equal document gave unequal data")
            elif op == "NE":
                n = firsts.get("N")
                if not n or n[1] is not None:
                    continue
                r = call("NE", n[0].to_code)
                kind = "code"
            elif op == "NJ":
                n = firsts.get("N")
                if not n or n[1] is not None:
                    continue
                r = call("NJ", n[0].to_json_data)
                kind = "json"
            if op not in firsts:
                firsts[op] = r
                if r[1] is not None and op in ("E", "N", "J", "L"):
                    viol({"E": "to_code", "N": "normalize", "J": "to_json_data", "L": "from_json_data"}[op],
                         "call raises on valid argument", "%s: %s" % (type(r[1]).__name__, H.short(r[1], 300)))
            else:
                repeat_check({"D": "from_code", "E": "to_code", "N": "normalize", "J": "to_json_data", "L": "from_json_data",
                              "NE": "to_code", "NJ": "to_json_data"}[op], firsts[op], r, kind)
        # the decoded value itself must still be what the first decode produced
        if not same_data(x, x_first[0]):
            viol("from_code", "value changed during history", "decoded CodeData differs at the end of the history")
        if rng.random() < 0.25 and len(code.co_code) < 4000:
            # a code object nobody compiled: unreachable code units after the end that hold an opcode this interpreter does not
            # define.  Whatever from_code does with it (decode or raise), the process must be left as it was.
            import gen_const
            undefined = [o for o in range(256) if _dis.opname[o].startswith("<")]
            o = rng.choice(undefined)
            try:
                junk = gen_const.rebuild(code, co_code=code.co_code + bytes(bytearray([o, 0])))
            except Exception:
                junk = None
            if junk is not None:
                H.count("foreign_opcode_decodes")
                r_ = call("D~", CodeData.from_code, junk)
                if r_[1] is None:
                    call("E~", r_[0].to_code)
        if nested or case["k"] in ("w9", "w9src"):
            H.distinct(hashlib.md5((id_ + "|" + " ".join(state["hist"])).encode("utf-8", "replace")).digest())
        H.feature("history_len:%d" % (len(state["hist"]) // 8 * 8))
        if H._counters.get("cases", 0) <= 4:
            H.sample({"id": id_, "history": " ".join(state["hist"])})

    if len(stress_items) >= 2:
        # interleaved calls in the literal sense: the five API functions re-entrantly and from several threads at once
        import stress
        rng = H.rng_for(shard.get("seed", 0), "stress", shard.get("shard", 0))
        if len(stress_items) > 8:
            stress_items = rng.sample(stress_items, 8)

        def api(code):
            x = CodeData.from_code(code)
            doc = x.to_json_data()
            return (x, x.to_code(), x.normalize(), canon(doc), CodeData.from_json_data(doc))

        def same(a, b):
            if not same_data(a[0], b[0]):
                return "from_code result differs"
            if H.strict_diff(a[1], b[1], nan_ident=False):
                return "to_code result differs: %s" % H.short(H.strict_diff(a[1], b[1], nan_ident=False)[:2], 200)
            if not same_data(a[2], b[2]):
                return "normalize result differs"
            if a[3] != b[3]:
                return "to_json_data result differs"
            if not same_data(a[4], b[4]):
                return "from_json_data result differs"
            return None
        stress.stress("C12", stress_items, api, same, rng, n_reentrant=8, label="from_code/to_code/normalize/to_json_data/from_json_data")


def run_json_only(shard, CodeData, H, dc, json, canon, viol, state, same_data, clobber):
    """The JSON half of the API on hosts that cannot build the code objects (3.11+), and on the producers' documents of
    other versions: same parsed document loaded repeatedly, to_json_data / normalize repeated, documents clobbered."""
    for path in shard["doc_files"]:
        for line in open(path):
            rec = json.loads(line)
            state["case"] = {"k": "doc", "id": rec["id"], "producer": rec["producer"]}
            state["hist"] = []
            rng = H.rng_for(shard.get("seed", 0), "c12json", rec["id"], rec["producer"])
            doc = rec["doc"]
            snap = canon(doc)
            snap_fp = data_fp(doc, dc)
            firsts = {}
            y = None
            for op in ["L", "L", "J", "N", "L", "NJ", "J", "L", "N"]:
                state["hist"].append(op)
                try:
                    if op == "L":
                        r = CodeData.from_json_data(doc)          # the very same parsed document every time
                        kind = "data"
                        y = r
                    elif op == "J":
                        r = y.to_json_data()
                        kind = "json"
                        keep = canon(r)
                        before = data_fp(y, dc)
                        H.count("checks:C12.clobber")
                        H.count("evaluations")
                        clobber(r, rng)
                        if data_fp(y, dc) != before:
                            viol("to_json_data", "returned document shares state with the CodeData", "after mutating the returned document")
                        r = json.loads(keep)
                    elif op == "N":
                        r = y.normalize()
                        kind = "data"
                    else:
                        r = firsts["N"].to_json_data()
                        kind = "json"
                except Exception as e:
                    viol(op, "call raises on valid argument", "%s: %s (history %s)" % (type(e).__name__, H.short(e, 200), " ".join(state["hist"])))
                    break
                H.count("checks:C12.repeat")
                H.count("evaluations")
                if op in firsts:
                    ok = same_data(firsts[op], r) if kind == "data" else canon(firsts[op]) == canon(r)
                    if not ok:
                        viol(op, "repeat call result differs", "history %s" % " ".join(state["hist"]))
                else:
                    firsts[op] = r
            if canon(doc) != snap or data_fp(doc, dc) != snap_fp:
                viol("from_json_data", "argument mutated", "the document differs after the history: %s" % H.short(_type_diff(snap_fp, data_fp(doc, dc)), 300))
            if y is not None:
                d2 = json.loads(snap)
                z = CodeData.from_json_data(d2)
                before = data_fp(z, dc)
                H.count("checks:C12.clobber")
                H.count("evaluations")
                clobber(d2, rng)
                if data_fp(z, dc) != before:
                    viol("from_json_data", "loaded CodeData shares state with the document", "after mutating the consumed document")
            H.distinct("doc|%s|%s" % (rec["producer"], rec["id"]))


def offline(ctx, results):
    """JSON-only consumer phase on every interpreter present (incl. 3.11-3.13) over the producers' documents."""
    import glob
    import os
    import sys
    import concurrent.futures
    main = sys.modules["__main__"]
    run_shard = getattr(main, "run_shard", None)
    if run_shard is None:
        import vcheck
        run_shard = vcheck.run_shard
    out = {"viols": [], "counters": {}, "per_interp": {}, "worker_problems": [], "extra": {}}
    doc_files = sorted(glob.glob(os.path.join(ctx.tmp, "out*.jsonl.docs")))
    if not doc_files:
        return out
    shards = []
    # the producers already run full histories on 3.7-3.10; the JSON-only phase adds the hosts that cannot build code
    # objects (3.11+) and, in the thorough tier, every other interpreter as a cross-version consumer as well
    json_hosts = [v for v in ctx.consumers if v not in ctx.producers or ctx.tier == "thorough" or v == ctx.producers[0]]
    for v in json_hosts:
        k = 2 if v in ctx.producers else 4
        for i in range(k):
            part = doc_files[i::k]
            if part:
                shards.append({"interp": v, "role": "json_only", "doc_files": part, "label": "C12:json_only:%s#%d" % (v, i), "tier": ctx.tier, "seed": ctx.seed})
    res = []
    with concurrent.futures.ThreadPoolExecutor(max_workers=ctx.ncpu) as ex:
        futs = [ex.submit(run_shard, ctx, 2000 + i, sh, TIMEOUT[ctx.tier]) for i, sh in enumerate(shards)]
        for f in futs:
            res.append(f.result())
    distinct = set()
    for r in res:
        got = False
        for rec in r["records"]:
            if rec.get("t") == "viol":
                out["viols"].append(rec)
            elif rec.get("t") == "summary":
                got = True
                pic = out["per_interp"].setdefault(r["interp"], {})
                for k2, n in rec["counters"].items():
                    key = k2 if not k2.startswith("checks:") else k2 + ".json_only"
                    pic[key] = pic.get(key, 0) + n
                distinct.update(rec["distinct"])
        if r["status"] != "ok" or not got:
            out["worker_problems"].append({"shard": r["idx"], "interp": r["interp"], "status": r["status"], "label": r["label"], "stderr": r["stderr"][-1500:]})
    out["distinct"] = sorted(distinct)
    out["extra"]["json_only_consumers"] = json_hosts
    return out
