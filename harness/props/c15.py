# C15 - the JSON form is portable across interpreter versions.
# Deciding step: an OFFLINE CHECKER OVER RECORDED LOGS.  Producer workers (3.7-3.10) record, for decoded data,
# the document and the document of their own normal form.  Consumer workers (every interpreter present,
# 3.7-3.13, including hosts that cannot build the code object) load each recorded document, re-serialize it,
# normalize it and hash it.  The orchestrator joins the logs by (producer, id) and compares canonical dumps.
from __future__ import print_function

RULE = ("one evaluation = one (document, consumer interpreter) pair: from_json_data must succeed, hash() must succeed, to_json_data "
        "of the loaded data must equal the recorded document and normalize().to_json_data() must equal the producer's own normal-form "
        "document (canonical dumps: sort_keys, frozenset element lists sorted); non-trivial = document from a program with nested code "
        "or non-trivial constants, or any W9 case; distinct = (producer, canonical document digest)")
DECIDING = ["checks:C15.consume"]
EVAL_COUNTER = "evaluations"
ASSUMPTIONS = ["the listing order of frozenset elements is the one allowed difference and is normalised by sorting element dumps",
               "consumers 3.11-3.13 only exercise from_json_data / to_json_data / normalize / hash (they cannot build 3.7-3.10 code objects)"]
TIMEOUT = {"quick": 1200, "thorough": 7200}
OFFLINE_IN_REPLAY = True
NEED_INTERPS = None  # set in plan(): every interpreter present must have consumed


def plan(ctx):
    import planlib as P
    global NEED_INTERPS
    NEED_INTERPS = list(ctx.consumers)
    shards = []
    k = max(1, ctx.ncpu // max(1, len(ctx.producers)))
    for v in ctx.producers:
        if ctx.tier == "quick":
            cases = P.corpus_cases(ctx, v, n_w9=0, n_files=12, n_w3=60, modes=2, max_file_bytes=15000, w3_size=0.7, w1_max_bytes=40000)
            cases += P.w9_cases(ctx, 240)
        else:
            cases = P.corpus_cases(ctx, v, n_w9=0, n_files=300, n_w3=1500, modes=40, max_file_bytes=60000, max_w4_bytes=100000)
            cases += P.w9_cases(ctx, 6000)
        shards.extend(P.split(ctx, v, cases, k, "C15:produce:", extra={"role": "produce"}))
    return shards


def canon(doc):
    """Canonical text of a JSON document (frozenset element order normalised)."""
    import json

    def norm(x):
        if isinstance(x, dict):
            d = dict((k, norm(v)) for k, v in x.items())
            if set(d) == {"frozenset"} and isinstance(d["frozenset"], list):
                d["frozenset"] = sorted(d["frozenset"], key=lambda e: json.dumps(e, sort_keys=True))
            return d
        if isinstance(x, list):
            return [norm(v) for v in x]
        return x
    return json.dumps(norm(doc), sort_keys=True)


def run(shard):
    import hashlib
    import json
    import hcommon as H
    cdm = H.import_repo(json_only=shard["role"] != "produce")
    CodeData = cdm.CodeData

    def md5(s):
        return hashlib.md5(s.encode("utf-8", "surrogatepass")).hexdigest()

    if shard["role"] == "produce":
        import corpus
        out = open(H._out.name + ".docs", "w")
        import sys
        ptag = H.PYTAG + ("-" + "O" * sys.flags.optimize if sys.flags.optimize else "")   # documents of a `python -O` producer are their own series
        for case, id_, code, text in corpus.iter_cases(shard):
            try:
                cd = CodeData.from_code(code)
                doc = cd.to_json_data()
                ndoc = cd.normalize().to_json_data()
                line = json.dumps({"id": id_, "producer": ptag, "doc": doc, "canon": md5(canon(doc)), "ncanon": md5(canon(ndoc)),
                                   "ndoc": ndoc if len(str(ndoc)) < 4000 else None,
                                   "case": corpus.replay_case(case) if case["k"] != "w9" else dict(case, id=id_),
                                   "nontrivial": case["k"] in ("w9", "w9src") or len(cd.blocks) > 1 or any(True for _ in cd)})
            except Exception as e:
                H.count("producer_failed:" + type(e).__name__)   # C01/C07's business
                continue
            out.write(line + "\n")
            H.count("produced")
        out.close()
        return

    # consumer
    res = open(H._out.name + ".res", "w")
    for path in shard["doc_files"]:
        for line in open(path):
            rec = json.loads(line)
            H.count("checks:C15.consume")
            H.count("evaluations")
            r = {"id": rec["id"], "producer": rec["producer"], "consumer": H.PYTAG}
            try:
                y = CodeData.from_json_data(rec["doc"])
            except Exception as e:
                r["error"] = "from_json_data raised %s: %s" % (type(e).__name__, H.short(e, 300))
                res.write(json.dumps(r) + "\n")
                continue
            try:
                hash(y)
            except Exception as e:
                r["hash_error"] = "%s: %s" % (type(e).__name__, H.short(e, 200))
            # documents travel between hosts through whatever serializer the transport uses: member order is not significant
            for label, doc3 in H.json_transits(rec["doc"]):
                H.count("checks:C15.transit")
                try:
                    if not (CodeData.from_json_data(doc3) == y):
                        r["error"] = "the same document with %s loads to different data on this host" % label
                except Exception as e:
                    r["error"] = "from_json_data raises for the same document with %s: %s: %s" % (label, type(e).__name__, H.short(e, 200))
            try:
                redump = y.to_json_data()
                r["canon"] = md5(canon(redump))
                if r["canon"] != rec["canon"]:
                    a, b = canon(rec["doc"]), canon(redump)
                    i = 0
                    while i < min(len(a), len(b)) and a[i] == b[i]:
                        i += 1
                    r["canon_diff"] = "recorded ...%s | re-serialized ...%s" % (a[max(0, i - 80):i + 80], b[max(0, i - 80):i + 80])
            except Exception as e:
                r["error"] = "to_json_data raised %s: %s" % (type(e).__name__, H.short(e, 300))
            try:
                nd = y.normalize().to_json_data()
                r["ncanon"] = md5(canon(nd))
                if r["ncanon"] != rec["ncanon"] and rec.get("ndoc") is not None:
                    a, b = canon(rec["ndoc"]), canon(nd)
                    i = 0
                    while i < min(len(a), len(b)) and a[i] == b[i]:
                        i += 1
                    r["ncanon_diff"] = "producer normal form ...%s | consumer normal form ...%s" % (a[max(0, i - 80):i + 80], b[max(0, i - 80):i + 80])
            except Exception as e:
                r["error"] = "normalize/to_json_data raised %s: %s" % (type(e).__name__, H.short(e, 300))
            res.write(json.dumps(r) + "\n")
    res.close()


def offline(ctx, results):
    """Consumer phase + join."""
    import glob
    import json
    import os
    import sys
    import concurrent.futures
    main = sys.modules["__main__"]
    run_shard = getattr(main, "run_shard", None)
    if run_shard is None:
        import vcheck
        run_shard = vcheck.run_shard
    out = {"viols": [], "counters": {}, "distinct": [], "samples": [], "extra": {}, "per_interp": {}, "worker_problems": []}
    doc_files = sorted(glob.glob(os.path.join(ctx.tmp, "out*.jsonl.docs")))
    if not doc_files:
        return out
    # recorded documents, indexed
    recorded = {}
    for p in doc_files:
        for line in open(p):
            rec = json.loads(line)
            recorded[(rec["producer"], rec["id"])] = rec
    # consumer shards: each consumer reads every producer file; split files across 2-3 workers per consumer
    shards = []
    per = max(1, (ctx.ncpu * 2) // max(1, len(ctx.consumers)))
    for v in ctx.consumers:
        for i in range(per):
            part = doc_files[i::per]
            if part:
                shards.append({"interp": v, "role": "consume", "doc_files": part, "label": "C15:consume:%s#%d" % (v, i),
                               "tier": ctx.tier, "seed": ctx.seed})
    base = 1000
    cres = []
    timeout = TIMEOUT[ctx.tier]
    with concurrent.futures.ThreadPoolExecutor(max_workers=ctx.ncpu) as ex:
        futs = [ex.submit(run_shard, ctx, base + i, s, timeout) for i, s in enumerate(shards)]
        for f in futs:
            cres.append(f.result())
    pairs = 0
    seen = {}
    for r in cres:
        got = False
        for rec in r["records"]:
            if rec.get("t") == "summary":
                got = True
                pic = out["per_interp"].setdefault(r["interp"], {})
                for k, n in rec["counters"].items():
                    pic[k] = pic.get(k, 0) + n
        if r["status"] != "ok" or not got:
            out["worker_problems"].append({"shard": r["idx"], "interp": r["interp"], "status": r["status"], "label": r["label"],
                                           "stderr": r["stderr"][-1500:]})
        rp = os.path.join(ctx.tmp, "out%d.jsonl.res" % r["idx"])
        if not os.path.exists(rp):
            continue
        for line in open(rp):
            c = json.loads(line)
            pairs += 1
            rec = recorded.get((c["producer"], c["id"]))
            if rec is None:
                continue
            seen.setdefault((c["producer"], c["id"]), set()).add(c["consumer"])
            probs = []
            if "error" in c:
                probs.append(("load/serialize raises", c["error"]))
            if "hash_error" in c:
                probs.append(("hash raises", c["hash_error"]))
            if c.get("canon") is not None and c["canon"] != rec["canon"]:
                probs.append(("re-serialization differs", c.get("canon_diff", "")))
            if c.get("ncanon") is not None and c["ncanon"] != rec["ncanon"]:
                probs.append(("normal form differs between hosts", c.get("ncanon_diff", "")))
            for clause, detail in probs:
                out["viols"].append({"t": "viol", "prop": "C15", "monitor": "offline-join", "clause": clause, "interp": c["consumer"],
                                     "case": dict(rec.get("case") or {}, id=rec["id"], producer=c["producer"], consumer=c["consumer"]),
                                     "detail": "document written under %s, consumed under %s: %s" % (c["producer"], c["consumer"], detail), "mech": None})
            if rec.get("nontrivial"):
                out["distinct"].append("%s|%s" % (c["producer"], rec["canon"]))
    out["distinct"] = sorted(set(out["distinct"]))
    out["counters"]["joined_pairs"] = pairs
    out["counters"]["documents"] = len(recorded)
    full = sum(1 for k, s in seen.items() if len(s) == len(ctx.consumers))
    out["counters"]["documents_consumed_by_every_consumer"] = full
    out["extra"]["producers"] = ctx.producers
    out["extra"]["consumers"] = ctx.consumers
    for k in list(recorded)[:3]:
        out["samples"].append({"producer": k[0], "id": k[1], "doc_head": json.dumps(recorded[k]["doc"])[:300]})
    return out


def replay_shard(v):
    c = dict(v["case"])
    prod = c.get("producer", v["interp"])
    flags = {}
    if "-O" in prod:
        prod, o = prod.split("-", 1)
        flags = {"pyflags": ["-" + o]}
    return dict(flags, **{"interp": prod, "role": "produce", "cases": [dict((k, x) for k, x in c.items() if k not in ("producer", "consumer"))],
            "label": "replay", "tier": "quick", "seed": 0})
