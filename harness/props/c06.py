# C06 - normalization yields a canonical form, whatever the operation history.
# Deciding monitors: (i) API-boundary history monitor: every history over {C = to_code->from_code,
# J = to_json_data->dumps->loads->from_json_data, N = normalize} up to a bounded length is executed as a tree
# walk; after every step the value is re-normalized and compared (==, hash, canonical JSON) with the base normal
# form, and normalize must be idempotent.  (ii) variants: serialization variants of a code object are built by the
# harness alone (reassemble.py: permuted tables with renumbered operands, padding entries, CO_NESTED toggled,
# redundant EXTENDED_ARG prefixes on jumps), checked to be faithful by an independent symbolic reading, then
# from_code(variant).normalize() must equal from_code(base).normalize().
from __future__ import print_function

RULE = ("histories: one evaluation = one history step (node of the exhaustive history tree) after which normalize(x) is compared with "
        "the base normal form; variants: one evaluation = one faithful variant whose normal form is compared with the base's; "
        "non-trivial = program with nested code or >=2 blocks / variant that changed >=1 table or prefix; distinct = (program, history) "
        "or (code key, variant description, variant bytecode digest)")
DECIDING = ["checks:C06.history_step", "checks:C06.variant"]
EVAL_COUNTER = "evaluations"
ASSUMPTIONS = ["variants never move a function's constant 0 or the parameter prefix of the locals (those positions carry meaning)",
               "a variant is only used when sym.symbolic() reads it as the same instruction stream, lines and header as the base",
               "history trees are exhaustive to depth 3 (quick) / 5 (thorough, on a subset) and random beyond"]
TIMEOUT = {"quick": 1200, "thorough": 7200}


def plan(ctx):
    import planlib as P
    shards = []
    k = P.per_interp_shards(ctx)
    for v in ctx.producers:
        if ctx.tier == "quick":
            cases = P.corpus_cases(ctx, v, n_files=8, n_w3=24, modes=2, max_file_bytes=8000, w3_size=0.4, w1_max_bytes=12000,
                                   w4_filter=lambda i: i.startswith(("sig-", "doc-", "const-", "dead-", "comp", "class-cell", "fold-tuple-5-after", "fold-call-star-3", "if-63", "while-64",
                                                                     "for-else-126", "try-64", "names-256", "consts-257", "cells-255", "locals-256", "unused", "dup", "nested", "match", "with-paren")))
            depth, vfiles = 3, 150
        else:
            cases = P.corpus_cases(ctx, v, n_files=100, n_w3=200, modes=10, max_file_bytes=20000, w1_max_bytes=40000, max_w4_bytes=6000)
            depth, vfiles = 4, 3000
        shards.extend(P.split(ctx, v, cases, k, "C06:", extra={"depth": depth, "nvariants": 6}))
    return shards


def run(shard):
    import hashlib
    import json
    import hcommon as H
    import corpus
    import reassemble
    import sym
    cdm = H.import_repo()
    CodeData = cdm.CodeData
    state = {"case": None}
    for name in ("from_code", "to_code", "normalize", "to_json_data", "from_json_data"):
        H.Monitor(CodeData, name).install()

    def canon(x):
        return H.canon_json(x.to_json_data())

    def viol(monitor, clause, detail):
        H.violation("C06", monitor, clause, state["case"], detail)

    def step(x, op):
        if op == "C":
            return CodeData.from_code(x.to_code())
        if op == "J":
            return CodeData.from_json_data(json.loads(json.dumps(x.to_json_data())))
        return x.normalize()

    def check_against(nf, nf_hash, nf_canon, x, hist):
        H.count("checks:C06.history_step")
        H.count("evaluations")
        try:
            n = x.normalize()
        except Exception as e:
            viol("history", "normalize raises", "after %s: %r" % (hist, e))
            return
        if n != nf:
            viol("history", "normal form changed by history", "after history %s, normalize(x) != base normal form" % hist)
            return
        if hash(n) != nf_hash:
            viol("history", "hash of normal form changed by history", "after history %s" % hist)
        if canon(n) != nf_canon:
            viol("history", "JSON of normal form changed by history", "after history %s" % hist)
        nn = n.normalize()
        if nn != n or canon(nn) != nf_canon:
            viol("history", "normalize not idempotent", "after history %s" % hist)

    def walk(x, nf, nf_hash, nf_canon, hist, depth, last):
        if depth == 0:
            return
        for op in "CJN":
            if op == "N" and last == "N" and depth < 2:
                pass
            try:
                y = step(x, op)
            except Exception as e:
                viol("history", "history step raises", "history %s then %s: %s: %s" % (hist, op, type(e).__name__, H.short(e, 200)))
                continue
            check_against(nf, nf_hash, nf_canon, y, hist + op)
            walk(y, nf, nf_hash, nf_canon, hist + op, depth - 1, op)

    depth = shard.get("depth", 3)
    for case, id_, code, text in corpus.iter_cases(shard):
        state["case"] = corpus.replay_case(case)
        try:
            base = CodeData.from_code(code)
            nf = base.normalize()
            nf_hash, nf_canon = hash(nf), canon(nf)
        except Exception as e:
            H.count("decode_raised")
            continue
        nested = sum(1 for _ in H.iter_code(code)) - 1
        # (i) histories: exhaustive tree on small programs, random long histories on every program
        size = sum(len(c.co_code) for c, _d in H.iter_code(code))
        rng = H.rng_for(shard.get("seed", 0), "c06", id_)
        small = 2500 if shard.get("tier") == "quick" else 8000
        if size < 2500:
            walk(base, nf, nf_hash, nf_canon, "", depth, "")
            H.feature("tree_depth:%d" % depth)
        elif size < small:
            walk(base, nf, nf_hash, nf_canon, "", 3, "")
            H.feature("tree_depth:3")
        elif size < 12 * small:
            walk(base, nf, nf_hash, nf_canon, "", 2, "")
            H.feature("tree_depth:2")
        else:
            walk(base, nf, nf_hash, nf_canon, "", 1, "")
            H.feature("tree_depth:1")
        x = base
        hist = ""
        for _ in range(rng.choice([6, 8, 12]) if size < small else 4):
            op = rng.choice("CJN")
            try:
                x = step(x, op)
            except Exception as e:
                viol("history", "history step raises", "history %s then %s: %s" % (hist, op, H.short(e, 200)))
                break
            hist += op
            check_against(nf, nf_hash, nf_canon, x, hist)
        H.feature("random_history_len:%d" % len(hist))
        if nested or len(base.blocks) > 1:
            H.distinct(hashlib.md5((id_ + "|tree%d|" % depth + hist).encode("utf-8", "replace")).digest())

        # (i') the same program with serialization artefacts set by hand on the data (what a document written by another
        #      interpreter version, or an editing tool, can carry): private fields only, so the program is the same
        import dataclasses as dc_
        for c, _d in list(H.iter_code(code))[:6]:
            if len(c.co_code) > 4000:
                continue
            try:
                cd0 = CodeData.from_code(c)
                nf0 = cd0.normalize()
            except Exception:
                continue
            blocks = [list(b) for b in cd0.blocks]
            flat_pos = [(bi, ii) for bi, b in enumerate(blocks) for ii in range(len(b))]
            if not flat_pos:
                continue
            for what in ("line_offsets_override", "n_args_override", "nested_flag"):
                try:
                    if what == "nested_flag":
                        cdv = dc_.replace(cd0, _nested=not cd0._nested)
                    else:
                        bi, ii = flat_pos[rng.randrange(len(flat_pos))]
                        ins = blocks[bi][ii]
                        if what == "line_offsets_override":
                            ins2 = dc_.replace(ins, _line_offsets_override=rng.choice([(100,), (0,), (127, 1), (-128, 3)]))
                        else:
                            if type(ins.arg).__name__ == "Jump":
                                continue
                            ins2 = dc_.replace(ins, _n_args_override=rng.choice([2, 3]))
                        nb = [list(b) for b in blocks]
                        nb[bi][ii] = ins2
                        cdv = dc_.replace(cd0, blocks=tuple(tuple(b) for b in nb))
                except Exception as e:
                    H.count("skipped:artefact_variant:" + type(e).__name__)
                    continue
                H.count("checks:C06.artefact_variant")
                vcase = dict(state["case"], code_name=c.co_name, code_line=c.co_firstlineno, variant="hand-set " + what)
                try:
                    vn = cdv.normalize()
                except Exception as e:
                    H.violation("C06", "variant", "normalize raises on data with a hand-set artefact", vcase, "%s: %s" % (type(e).__name__, H.short(e, 200)))
                    continue
                if vn != nf0:
                    H.violation("C06", "variant", "variants normalize differently", vcase,
                                "data with a hand-set %s normalizes to different data than the same program without it: %s" % (what, first_diff(nf0, vn)))

        # (ii) variants of every code object of the program
        for c, _d in H.iter_code(code):
            if len(c.co_code) > 40000:
                continue
            try:
                cbase_nf = CodeData.from_code(c).normalize()
            except Exception:
                continue
            sbase = sym.symbolic(c)
            hbase = sym.header(c)
            for vi in range(shard.get("nvariants", 6) if len(c.co_code) < 4000 else 2):
                ops = reassemble.random_ops(rng) if vi else set(reassemble.ALL_OPS)
                try:
                    v, desc = reassemble.variant(c, rng, ops)
                except Exception as e:
                    H.count("variant_builder_error:" + type(e).__name__)
                    continue
                if v is None:
                    H.count("variant_skipped:" + desc.split(":")[0])
                    continue
                sv = sym.symbolic(v)
                if sv["instrs"] != sbase["instrs"] or sym.header(v) != hbase or len(sv["children"]) != len(sbase["children"]):
                    H.count("unfaithful_variant_discarded")
                    continue
                H.count("checks:C06.variant")
                H.count("evaluations")
                for part in desc.split("+"):
                    H.feature("variant:" + part)
                H.distinct(hashlib.md5(H.code_key(c) + desc.encode() + v.co_code).digest())
                vcase = dict(state["case"], code_name=c.co_name, code_line=c.co_firstlineno, variant=desc)
                try:
                    vn = CodeData.from_code(v).normalize()
                except Exception as e:
                    H.violation("C06", "variant", "from_code/normalize raises on a faithful variant", vcase,
                                "%s: %s (variant %s of %s)" % (type(e).__name__, H.short(e, 200), desc, c.co_name))
                    continue
                if vn != cbase_nf:
                    diff = first_diff(cbase_nf, vn)
                    H.violation("C06", "variant", "variants normalize differently", vcase,
                                "variant %s of code object %r normalizes to different data: %s" % (desc, c.co_name, diff))
                elif hash(vn) != hash(cbase_nf):
                    H.violation("C06", "variant", "equal normal forms hash differently", vcase, desc)
        if H._counters.get("cases", 0) <= 3:
            H.sample({"id": id_, "random_history": hist, "tree_depth": depth})


def first_diff(a, b):
    import dataclasses as dc
    import hcommon as H
    for f in dc.fields(a):
        x, y = getattr(a, f.name), getattr(b, f.name)
        if x != y:
            if f.name == "blocks":
                fa = [i for bl in x for i in bl]
                fb = [i for bl in y for i in bl]
                if len(x) != len(y):
                    return "blocks: %d vs %d blocks" % (len(x), len(y))
                for k, (i, j) in enumerate(zip(fa, fb)):
                    if i != j:
                        return "instruction %d: %s vs %s" % (k, H.short(i, 200), H.short(j, 200))
                return "blocks differ in partition"
            return "%s: %s vs %s" % (f.name, H.short(x, 150), H.short(y, 150))
    return "?"
