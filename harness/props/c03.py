# C03 - encoding any well-formed CodeData yields code that says what the data says.
# Deciding monitors: post-condition on every _code_data.from_code_data call (so it also fires for every encode in
# every other step): the emitted code object is read back with CPython's own readers (dis, PyCode_Addr2Line,
# _PyCode_ConstantKey) and compared with the data; a logical step counter on _blocks._instrsize bounds the encoder's
# fix-point loop (termination as bounded progress); the driver decodes the result again and compares normal forms.
from __future__ import print_function

RULE = ("one evaluation = one CodeData (hand-built graph W5, or decoded real code + edit W6) encoded under the monitor; the code object "
        "is read back with dis/Addr2Line/_PyCode_ConstantKey: opnames, operand index inside its table and resolving to the named value, "
        "jump lands on the first instruction (first EXTENDED_ARG prefix) of the target block, line per instruction, header; then "
        "from_code(result).normalize() vs input.normalize() on the flattened stream; non-trivial = >=2 blocks or >=1 operand needing "
        ">1 code unit; distinct = digest of the generator description / edit")
DECIDING = ["checks:C03.readback", "checks:C03.step_budget"]
EVAL_COUNTER = "evaluations"
ASSUMPTIONS = ["well-formed = operand kinds as the interpreter's dis tables demand, jump targets in range, relative jumps forward only, no private overrides (W5)",
               "line_number=None on <=3.9 (no way to express 'no line' in co_lnotab): accepted reading = the instruction inherits the previous instruction's line (first_line_number at the start)",
               "for edits that may make position overrides inconsistent, raising is an accepted outcome; emitting an out-of-table operand or another value is not",
               "step budget for the encoder's relaxation loop: (3*J+3) sweeps of 3*N _instrsize calls (J jumps, N instructions)"]
TIMEOUT = {"quick": 1500, "thorough": 7200}


def plan(ctx):
    import planlib as P
    shards = []
    k = P.per_interp_shards(ctx)
    for v in ctx.producers:
        if ctx.tier == "quick":
            cases = P.corpus_cases(ctx, v, n_files=10, n_w3=20, modes=0, max_file_bytes=20000, w3_size=0.6, w1_max_bytes=40000,
                                   w4_filter=lambda i: i.startswith(("if-6", "while-12", "for-else-6", "try-6", "fn-tail", "const-", "sig-", "doc-", "dead-", "fold-tuple-5",
                                                                     "names-25", "consts-25", "locals-25", "cells-25", "chained", "closure-")))
            n5, nbig, nwide = 560, 1, 8
        else:
            cases = P.corpus_cases(ctx, v, n_files=150, n_w3=300, modes=10, max_file_bytes=60000)
            n5, nbig, nwide = 10000, 12, 400
        shards.extend(P.split(ctx, v, cases, k, "C03:", extra={"n5": n5 // k, "nbig": nbig, "nwide": nwide // k, "nedits": 3}))
    return shards


class StepBudgetExceeded(Exception):
    pass


def run(shard):
    import dis
    import hashlib
    import hcommon as H
    import corpus
    import decode_oracles as D
    import gen_data
    cdm = H.import_repo()
    _code_data, _blocks = H.lib("_code_data", "_blocks")
    CodeData = cdm.CodeData
    state = {"case": None, "may_raise": False, "budget": None, "steps": 0, "max_sweeps": 0}

    def viol(clause, detail, mech=None):
        H.violation("C03", "from_code_data", clause, state["case"], detail, mech)

    # ---- logical step counter on the encoder's relaxation loop
    def b2b_pre(a, k, depth):
        blocks = a[0]
        n = sum(len(b) for b in blocks)
        j = sum(1 for b in blocks for i in b if type(i.arg).__name__ == "Jump")
        prev = (state["budget"], state["steps"])
        state["budget"] = (3 * j + 3) * 3 * max(n, 1) + 16
        state["steps"] = 0
        state["n"] = max(n, 1)
        return prev

    def b2b_post(a, k, res, exc, depth, prev):
        H.count("checks:C03.step_budget")
        sweeps = state["steps"] // (3 * state["n"]) + 1
        if sweeps > state["max_sweeps"]:
            state["max_sweeps"] = sweeps
        state["budget"], state["steps"] = prev

    orig_instrsize = _blocks._instrsize

    def counting_instrsize(arg):
        state["steps"] += 1
        if state["budget"] is not None and state["steps"] > state["budget"]:
            raise StepBudgetExceeded("encoder relaxation loop exceeded %d _instrsize calls" % state["budget"])
        return orig_instrsize(arg)

    _blocks._instrsize = counting_instrsize
    H.Monitor(_blocks, "blocks_to_bytes", pre=b2b_pre, post=b2b_post).install(also=[_code_data])

    # ---- post-condition on from_code_data
    def ref_equal(a, b):
        import props.c08 as c08
        na, nb = c08.has_nan(a), c08.has_nan(b)
        if na != nb:
            return False
        if na:
            return H.const_fp(a, nan_ident=True) == H.const_fp(b, nan_ident=True)
        try:
            return H.cpython_constant_key(a) == H.cpython_constant_key(b)
        except Exception:
            return H.const_fp(a) == H.const_fp(b)

    def readback(cd, code):
        """Compare the emitted code object with what the data says."""
        try:
            folded = H.folded_instructions(code)
        except Exception as e:
            # dis itself cannot read it: typically an operand outside its table
            return [("disassembler cannot read the emitted code", "%s: %s" % (type(e).__name__, e), "operand-outside-table")]
        flat = [ins for b in cd.blocks for ins in b]
        out = []
        if len(folded) != len(flat):
            return [("instruction count", "data has %d instructions, emitted code %d" % (len(flat), len(folded)), None)]
        starts = []
        k = 0
        for b in cd.blocks:
            starts.append(folded[k]["start"] if k < len(folded) else None)
            k += len(b)
        ncell = len(code.co_cellvars)
        prev_line = code.co_firstlineno
        lookup = H.line_lookup(code)
        for i, (f, ins) in enumerate(zip(folded, flat)):
            where = "instr %d %s" % (i, ins.name)
            if f["opname"] != ins.name:
                out.append(("opname", "%s emitted as %s" % (where, f["opname"]), None))
                break
            arg = ins.arg
            kind = type(arg).__name__
            a = f["arg"]
            if kind == "Name":
                if a >= len(code.co_names):
                    out.append(("operand outside its table", "%s: names index %d of %d" % (where, a, len(code.co_names)), "operand-outside-table"))
                elif code.co_names[a] != arg.name:
                    out.append(("operand resolves to another value", "%s: %r vs %r" % (where, code.co_names[a], arg.name), None))
            elif kind == "Varname":
                if a >= len(code.co_varnames):
                    out.append(("operand outside its table", "%s: varnames index %d of %d" % (where, a, len(code.co_varnames)), "operand-outside-table"))
                elif code.co_varnames[a] != arg.varname:
                    out.append(("operand resolves to another value", "%s: %r vs %r" % (where, code.co_varnames[a], arg.varname), None))
            elif kind == "Cellvar":
                if a >= ncell:
                    out.append(("operand outside its table", "%s: cell index %d of %d" % (where, a, ncell), "operand-outside-table"))
                elif code.co_cellvars[a] != arg.cellvar:
                    out.append(("operand resolves to another value", "%s: %r vs %r" % (where, code.co_cellvars[a], arg.cellvar), None))
            elif kind == "Freevar":
                if not (ncell <= a < ncell + len(code.co_freevars)):
                    out.append(("operand outside its table", "%s: free index %d (cells %d, free %d)" % (where, a, ncell, len(code.co_freevars)), "operand-outside-table"))
                elif code.co_freevars[a - ncell] != arg.freevar:
                    out.append(("operand resolves to another value", "%s: %r vs %r" % (where, code.co_freevars[a - ncell], arg.freevar), None))
            elif kind == "Constant":
                if a >= len(code.co_consts):
                    out.append(("operand outside its table", "%s: const index %d of %d" % (where, a, len(code.co_consts)), "operand-outside-table"))
                else:
                    got = code.co_consts[a]
                    want = arg.constant
                    if isinstance(want, CodeData):
                        ok = isinstance(got, H.CodeType) and got.co_name == want.name and got.co_firstlineno == want.first_line_number
                    else:
                        ok = type(got) is type(want) and ref_equal(got, want)
                    if not ok:
                        out.append(("constant merged with / replaced by a distinct constant", "%s: data names %s, table holds %s" % (
                            where, H.short(want, 80), H.short(got, 80)), None))
            elif kind == "Jump":
                tgt = D.jump_target(f)
                want_rel = f["opcode"] in D.HASJREL
                if arg.relative != want_rel:
                    pass  # ill-formed input (kind does not match the opcode); not generated
                if not (0 <= arg.target < len(starts)) or starts[arg.target] != tgt:
                    out.append(("jump does not land on the first instruction of its target block",
                                "%s: lands at offset %r, block %d starts at %r" % (where, tgt, arg.target, starts[arg.target] if 0 <= arg.target < len(starts) else None), None))
            elif kind == "int":
                if D.wrap_oparg(a) != arg:
                    out.append(("int operand", "%s: %r vs %r" % (where, a, arg), None))
            line = lookup(f["start"])
            want_line = ins.line_number
            if want_line is None and not H.IS310:
                want_line = prev_line      # <=3.9: inherits the previous line
            if line != want_line:
                out.append(("line", "%s: CPython assigns line %r, data says %r" % (where, line, ins.line_number), None))
            prev_line = line if line is not None else prev_line
            if len(out) >= 4:
                break
        # header
        tp = cd.type
        fl = code.co_flags
        if tp is not None:
            ar = tp.args
            want_params = tuple(ar.positional_only) + tuple(ar.positional_or_keyword) + tuple(ar.keyword_only) + \
                ((ar.var_positional,) if ar.var_positional else ()) + ((ar.var_keyword,) if ar.var_keyword else ())
            hdr = [("co_argcount", code.co_argcount, len(ar.positional_only) + len(ar.positional_or_keyword)),
                   ("co_posonlyargcount", getattr(code, "co_posonlyargcount", 0), len(ar.positional_only)),
                   ("co_kwonlyargcount", code.co_kwonlyargcount, len(ar.keyword_only)),
                   ("VARARGS", bool(fl & 4), bool(ar.var_positional)), ("VARKEYWORDS", bool(fl & 8), bool(ar.var_keyword)),
                   ("parameter names", code.co_varnames[:len(want_params)], want_params),
                   ("function flags", fl & 3, 3),
                   ("kind flags", (bool(fl & 0x20), bool(fl & 0x80), bool(fl & 0x200)),
                    (tp.type == "GENERATOR", tp.type == "COROUTINE", tp.type == "ASYNC_GENERATOR")),
                   ("__doc__ slot", code.co_consts[0] if (code.co_consts and isinstance(code.co_consts[0], str)) else None, tp.docstring)]
        else:
            hdr = [("co_argcount", code.co_argcount, 0), ("co_kwonlyargcount", code.co_kwonlyargcount, 0), ("function flags", fl & 3, 0)]
        hdr += [("co_freevars", code.co_freevars, tuple(cd.freevars)), ("co_name", code.co_name, cd.name), ("co_filename", code.co_filename, cd.filename),
                ("co_firstlineno", code.co_firstlineno, cd.first_line_number), ("co_stacksize", code.co_stacksize, cd.stacksize),
                ("NESTED", bool(fl & 0x10), bool(cd._nested)), ("NOFREE", bool(fl & 0x40), not code.co_freevars and not code.co_cellvars),
                ("co_nlocals", code.co_nlocals, len(code.co_varnames))]
        for name, got, want in hdr:
            if got != want:
                out.append(("header: " + name, "emitted %r, data says %r" % (got, want), None))
        return out

    def fcd_post(a, k, res, exc, depth, snap):
        cd = a[0]
        H.count("checks:C03.readback")
        if exc is not None:
            if isinstance(exc, StepBudgetExceeded):
                viol("to_code exceeds its step budget", str(exc))
            elif not state["may_raise"] and depth == 0:
                viol("to_code raises on well-formed data", "%s: %s" % (type(exc).__name__, H.short(exc, 300)),
                     "none-line-lnotab" if (not H.IS310 and isinstance(exc, TypeError) and "NoneType" in str(exc)) else None)
            else:
                H.count("accepted_raise")
            return
        for clause, detail, mech in readback(cd, res)[:3]:
            viol(clause, "code object %r: %s" % (cd.name, detail), mech)

    H.Monitor(_code_data, "from_code_data", post=fcd_post).install()

    def stream(cd):
        """Flattened normalized stream with jump targets as instruction indices."""
        n = cd.normalize()
        starts = []
        k = 0
        for b in n.blocks:
            starts.append(k)
            k += len(b)
        out = []
        for b in n.blocks:
            for ins in b:
                arg = ins.arg
                if type(arg).__name__ == "Jump":
                    arg = ("jump", arg.relative, starts[arg.target] if 0 <= arg.target < len(starts) else None)
                elif type(arg).__name__ == "Constant" and isinstance(arg.constant, CodeData):
                    arg = ("code", arg.constant.name, arg.constant.first_line_number)
                out.append((ins.name, arg, ins.line_number))
        return out, n

    def drive(cd, may_raise, label):
        state["may_raise"] = may_raise
        H.count("evaluations")
        try:
            code = cd.to_code()
        except Exception:
            return  # judged by the monitor
        # decode again: equal to the input up to normalization
        try:
            back = CodeData.from_code(code)
            s1, n1 = stream(cd)
            s2, n2 = stream(back)
        except Exception as e:
            viol("decoding the emitted code again raises", "%s: %s" % (type(e).__name__, H.short(e, 300)))
            return
        if not H.IS310:
            # None lines are read back as inherited lines on <=3.9
            prev = cd.first_line_number
            fixed = []
            for name, arg, ln in s1:
                if ln is None:
                    ln = prev
                prev = ln
                fixed.append((name, arg, ln))
            s1 = fixed
        if s1 != s2:
            k = 0
            while k < min(len(s1), len(s2)) and s1[k] == s2[k]:
                k += 1
            viol("decoding again differs from the input up to normalization", "instruction %d: input %s, decoded again %s" % (
                k, H.short(s1[k:k + 1], 200), H.short(s2[k:k + 1], 200)))
        else:
            for fld in ("filename", "first_line_number", "name", "stacksize", "type", "freevars", "future_annotations"):
                if getattr(n1, fld) != getattr(n2, fld):
                    viol("decoding again differs from the input up to normalization", "%s: %r vs %r" % (fld, getattr(n1, fld), getattr(n2, fld)))

    # ---- W5
    rng = H.rng_for(shard.get("seed", 0), "w5", shard.get("shard", 0))
    plan5 = [("small", True)] * shard.get("n5", 0)
    plan5 += [("wide", True)] * shard.get("nwide", 0)
    if shard.get("shard", 0) == 0:
        plan5 += [("big", True)] * shard.get("nbig", 0)
    for n, (size, canonical) in enumerate(plan5):
        if size == "small" and n % 5 == 4:
            canonical = False
        r2 = H.rng_for(shard.get("seed", 0), "w5", shard.get("shard", 0), n)
        cd, desc = gen_data.build(r2, size, canonical)
        state["case"] = {"k": "w5", "id": "w5:%s:%d:%d" % (size, shard.get("shard", 0), n), "shard": shard.get("shard", 0), "n": n, "size": size,
                         "canonical": canonical, "desc": desc}
        H.feature("w5:" + size + (":noncanonical" if not canonical else ""))
        if desc["blocks"] >= 2 or desc["names"] > 255 or desc["consts"] > 255:
            H.distinct(repr(sorted(desc.items())) + str(n))
        drive(cd, False, "w5")
        if n < 2:
            H.sample({"id": state["case"]["id"], "desc": desc})
    for rc in shard.get("w5_replay", []):
        r2 = H.rng_for(shard.get("seed", 0), "w5", rc["shard"], rc["n"])
        cd, desc = gen_data.build(r2, rc["size"], rc["canonical"])
        state["case"] = rc
        drive(cd, False, "w5")

    # ---- W6: decoded real code + edits (and the plain encode of the decoded data)
    for case, id_, code, text in corpus.iter_cases(shard):
        base_case = corpus.replay_case(case)
        state["case"] = base_case
        state["may_raise"] = False
        try:
            cd0 = CodeData.from_code(code)
        except Exception:
            H.count("decode_raised")
            continue
        subs = [c for c in cd0.all_code_data()]
        r3 = H.rng_for(shard.get("seed", 0), "w6", id_)
        for e in range(shard.get("nedits", 3)):
            cd = r3.choice(subs)
            op = r3.choice(gen_data.EDITS)
            if op == "insert_nops_big" and (r3.random() < 0.7 or (shard.get("tier") == "quick" and state.get("bigs", 0) >= 2)):
                op = "insert_nops"
            if op == "insert_nops_big":
                state["bigs"] = state.get("bigs", 0) + 1
            try:
                ed, detail = gen_data.edit(cd, r3, op)
            except Exception as ex:
                H.count("edit_builder_error:" + type(ex).__name__)
                continue
            if ed is None:
                H.count("edit_skipped")
                continue
            state["case"] = dict(base_case, edit=op, edit_detail=detail, code_name=cd.name)
            H.feature("w6:" + op)
            H.distinct("%s|%s|%s|%s" % (id_, cd.name, op, detail))
            drive(ed, op in gen_data.MAY_BE_INCONSISTENT, "w6")
    H.count("max_relaxation_sweeps_seen", 0)
    H.feature("max_relaxation_sweeps:%d" % state["max_sweeps"])


def replay_shard(v):
    c = v["case"]
    s = {"interp": v["interp"], "label": "replay", "tier": "quick", "seed": int(__import__("os").environ.get("VERIF_SEED", "0")), "cases": [], "n5": 0, "nbig": 0, "nwide": 0, "nedits": 6}
    if c.get("k") == "w5":
        s["w5_replay"] = [c]
    else:
        s["cases"] = [dict((k, x) for k, x in c.items() if k not in ("edit", "edit_detail", "code_name"))]
    return s
