# C14 - iteration enumerates every nested code object.
# Deciding monitor: post-condition on the outermost _code_data.to_code_data call; the reference
# enumeration is a recursive walk of co_consts, each child decoded on its own for comparison.
from __future__ import print_function

RULE = ("one evaluation = one top-level code object whose list(cd) / list(cd.all_code_data()) are compared with a recursive "
        "walk of co_consts (count, self first, each element == an independent from_code of that child); non-trivial = "
        ">=1 nested code object; distinct = md5 over the module's code keys")
DECIDING = ["checks:C14.iteration"]
EVAL_COUNTER = "evaluations"
ASSUMPTIONS = ["children are matched as a multiset (order beyond 'self first' is not required by the property)"]
TIMEOUT = {"quick": 900, "thorough": 7200}


def plan(ctx):
    import planlib as P
    shards = []
    k = P.per_interp_shards(ctx)
    for v in ctx.producers:
        if ctx.tier == "quick":
            cases = P.corpus_cases(ctx, v, n_files=200, n_extra=30, n_w3=250, modes=30, max_file_bytes=150000)
        else:
            cases = P.corpus_cases(ctx, v, all_files=True, all_extra=True, n_w3=3000, modes=300)
        shards.extend(P.split(ctx, v, cases, k, "C14:"))
    return shards


def _match(got, want):
    """Multiset match by ==; returns (missing_from_got, extra_in_got)."""
    remaining = list(got)
    missing = []
    for w in want:
        for i, g in enumerate(remaining):
            if g.name == w.name and g.first_line_number == w.first_line_number and g == w:
                del remaining[i]
                break
        else:
            missing.append(w)
    return missing, remaining


def run(shard):
    import hashlib
    import hcommon as H
    import decode_oracles as D
    cdm = H.import_repo()
    CodeData = cdm.CodeData
    holder = {}

    def on_decoded(code, cd, case, report):
        mon = holder["mon"]
        mon.enabled = False  # independent decodes below are not themselves observations
        try:
            direct = [c for c in code.co_consts if isinstance(c, H.CodeType)]
            everything = [c for c, _d in H.iter_code(code)]
            want_direct = [CodeData.from_code(c) for c in direct]
            want_all = [CodeData.from_code(c) for c in everything]
            got_direct = list(cd)
            got_all = list(cd.all_code_data())
        finally:
            mon.enabled = True
        H.count("evaluations")
        H.count("nested_code_objects", len(everything) - 1)
        # dead-code children: in co_consts but referenced by no LOAD_CONST
        used = set(f["arg"] for f in H.folded_instructions(code) if f["opcode"] in D.HASCONST)
        unref = [i for i, c in enumerate(code.co_consts) if isinstance(c, H.CodeType) and i not in used]
        if unref:
            H.feature("toplevel_with_unreferenced_child")
        if len(everything) > 1:
            h = hashlib.md5()
            for c in everything:
                h.update(H.code_key(c))
            H.distinct(h.digest())
        if any(not isinstance(x, CodeData) for x in got_all):
            report("element type", "all_code_data yielded non-CodeData"); return
        if not got_all or got_all[0] is not cd and got_all[0] != cd:
            report("self first", "first element of all_code_data() is not the object itself")
        miss, extra = _match(got_direct, want_direct)
        if miss or extra:
            report("direct children", "iter(cd) yields %d, co_consts holds %d code objects; missing %s extra %s" % (
                len(got_direct), len(direct), [m.name for m in miss][:5], [e.name for e in extra][:5]),
                "unreferenced-child" if (miss and not extra and unref) else None)
        miss, extra = _match(got_all, want_all)
        if miss or extra:
            report("all nested", "all_code_data() yields %d, recursive co_consts walk finds %d; missing %s extra %s" % (
                len(got_all), len(everything), [m.name for m in miss][:5], [e.name for e in extra][:5]))
        # iterator protocol: the enumeration is consumed step by step, resumed after other calls, and two of them may be in flight
        H.count("checks:C14.protocol")
        mon.enabled = False
        try:
            r = cd.all_code_data()
            try:
                first = next(r)
                if first is not cd:
                    report("iterator protocol", "next(cd.all_code_data()) is not the object itself")
                other = cd.all_code_data()
                next(other)                              # a second enumeration in flight
                list(cd)                                 # unrelated calls in between
                rest = list(r)
                m_, e_ = _match([first] + rest, got_all)
                if m_ or e_:
                    report("iterator protocol", "first item by next() + the rest after other calls gives %d code objects, one pass gives %d" % (1 + len(rest), len(got_all)))
                again = list(r)
                if again:
                    report("iterator protocol", "an exhausted all_code_data() enumeration yields %d more items" % len(again))
                if len(list(other)) != len(got_all) - 1:
                    report("iterator protocol", "a second enumeration in flight was disturbed by the first")
            except TypeError as e:
                report("iterator protocol", "cd.all_code_data() cannot be advanced with next(): %s" % e)
            i1, i2 = iter(cd), iter(cd)
            a1, a2 = [], []
            for _ in range(len(got_direct) + 1):
                for it_, acc in ((i1, a1), (i2, a2)):
                    try:
                        acc.append(next(it_))
                    except StopIteration:
                        pass
            if len(a1) != len(got_direct) or len(a2) != len(got_direct):
                report("iterator protocol", "two interleaved iter(cd) yield %d and %d items, one pass yields %d" % (len(a1), len(a2), len(got_direct)))
        finally:
            mon.enabled = True
        # the same value held in other ways - an instance of a subclass, a copy, the JSON-loaded twin - is a CodeData too
        if len(everything) > 1 and len(everything) <= 60:
            import copy
            import dataclasses as dc
            Sub = holder.setdefault("Sub", type("SubCodeData", (CodeData,), {}))
            mon.enabled = False
            try:
                others = []
                for label, make in (("subclass instance built from the fields", lambda: Sub(**dict((f.name, getattr(cd, f.name)) for f in dc.fields(cd)))),
                                    ("SubClass.from_code(code)", lambda: Sub.from_code(code)),
                                    ("dataclasses.replace(cd)", lambda: dc.replace(cd)),
                                    ("copy.copy(cd)", lambda: copy.copy(cd)),
                                    ("copy.deepcopy(cd)", lambda: copy.deepcopy(cd)),
                                    ("from_json_data(to_json_data(cd))", lambda: CodeData.from_json_data(cd.to_json_data()))):
                    try:
                        others.append((label, make()))
                    except Exception as e:
                        H.count("skipped:other_holder:" + type(e).__name__)
                for label, v in others:
                    H.count("checks:C14.other_holders")
                    try:
                        d2, a2 = list(v), list(v.all_code_data())
                    except Exception as e:
                        report("iteration raises", "%s: %s: %s" % (label, type(e).__name__, H.short(e, 200)))
                        continue
                    m1, e1 = _match(d2, got_direct)
                    m2, e2 = _match(a2[1:], got_all[1:])
                    if m1 or e1 or m2 or e2 or not a2 or a2[0] is not v:
                        report("other holder", "%s: iter() yields %d (decoded object: %d), all_code_data() yields %d (decoded object: %d)" % (
                            label, len(d2), len(got_direct), len(a2), len(got_all)))
            finally:
                mon.enabled = True

    holder["mon"] = None

    # drive() creates the monitor; we need a handle inside on_decoded, so install through a tiny shim
    import corpus
    _code_data = H.lib("_code_data")
    state = {"case": None}

    def post(a, k, res, exc, depth, snap):
        if exc is not None or depth != 0:
            return
        code = a[0]

        def report(clause, detail, mech=None):
            H.violation("C14", "to_code_data", clause, state["case"],
                        "code object %r line %d: %s" % (code.co_name, code.co_firstlineno, detail), mech)
        H.count("checks:C14.iteration")
        on_decoded(code, res, state["case"], report)

    holder["mon"] = H.Monitor(_code_data, "to_code_data", post=post).install()
    for case, id_, code, text in corpus.iter_cases(shard):
        state["case"] = corpus.replay_case(case)
        try:
            CodeData.from_code(code)
        except Exception:
            H.count("decode_raised")
        if H._counters.get("cases", 0) <= 3:
            H.sample({"id": id_, "nested": sum(1 for _ in H.iter_code(code)) - 1})
