# Offline validation of recorded documents with an independent JSON-Schema implementation.
#   python offline_jsonschema.py <impl> <schema.json> <docs.jsonl>...   impl: jsonschema | fastjsonschema | orjson
# Prints one JSON object: {"validated": n, "failures": [{"file":..., "id":..., "error":...}], "impl": ...}
import json
import sys


def main():
    impl, schema_path = sys.argv[1], sys.argv[2]
    files = sys.argv[3:]
    schema = json.load(open(schema_path))
    out = {"impl": impl, "validated": 0, "failures": [], "version": None}
    checkers = []
    if impl == "jsonschema":
        import jsonschema
        out["version"] = getattr(jsonschema, "__version__", "?")
        checkers = [("Draft7", jsonschema.Draft7Validator(schema)), ("Draft202012", jsonschema.Draft202012Validator(schema))]

        def check(doc):
            for name, v in checkers:
                errs = sorted(v.iter_errors(doc), key=lambda e: list(e.path))[:1]
                if errs:
                    return "%s: %s at %s" % (name, errs[0].message[:200], list(errs[0].absolute_path)[:8])
            return None
    elif impl == "fastjsonschema":
        import fastjsonschema
        out["version"] = getattr(fastjsonschema, "VERSION", "?")
        val = fastjsonschema.compile(schema)

        def check(doc):
            try:
                val(doc)
            except fastjsonschema.JsonSchemaException as e:
                return str(e)[:300]
            return None
    elif impl == "orjson":
        import orjson
        out["version"] = orjson.__version__

        def check(doc):
            try:
                b = orjson.dumps(doc)
                d2 = orjson.loads(b)
            except Exception as e:
                return "orjson: %s: %s" % (type(e).__name__, str(e)[:200])
            if d2 != doc:
                return "orjson round trip changed the document"
            return None
    else:
        raise SystemExit("unknown impl")
    maxb = None
    if files and files[0].startswith("--max-bytes="):
        maxb = int(files[0].split("=")[1])
        files = files[1:]
    out["skipped_large"] = 0
    for f in files:
        for line in open(f):
            if maxb is not None and len(line) > maxb:
                out["skipped_large"] += 1
                continue
            rec = json.loads(line)
            err = check(rec["doc"])
            out["validated"] += 1
            if err and len(out["failures"]) < 50:
                out["failures"].append({"file": f, "id": rec.get("id"), "interp": rec.get("interp"), "error": err, "case": rec.get("case")})
    print(json.dumps(out))


main()
