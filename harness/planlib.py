# Orchestrator-side planning helpers (runs under /usr/bin/python3; stdlib only).
import os
import random
import zlib

import gen_w4

_listing_cache = {}


def rng(seed, *parts):
    s = ":".join([str(seed)] + [str(p) for p in parts])
    return random.Random(zlib.crc32(s.encode()))


def stdlib_files(ctx, v):
    if v in _listing_cache:
        return _listing_cache[v]
    root = ctx.stdlib_dir(v)
    out = []
    for d, dirs, files in os.walk(root):
        dirs.sort()
        if "site-packages" in d:
            # pip/setuptools vendored code is real-world input as well: keep it
            pass
        for f in sorted(files):
            if f.endswith(".py"):
                p = os.path.join(d, f)
                try:
                    out.append((p, os.path.getsize(p)))
                except OSError:
                    pass
    _listing_cache[v] = out
    return out


EXTRA_DIRS = ["/opt/veriftools/pyvenv/lib/python3.11/site-packages", "/venv/lib/python3.12/site-packages",
              "/root/.pyenv/versions/3.13.0/lib/python3.13", "/root/.pyenv/versions/3.11.7/lib/python3.11/site-packages"]
_extra_cache = []


def extra_files(ctx):
    """Third-party and newer-stdlib sources present in the image: more real-world programs for the 3.7-3.10 compilers
    (files using newer syntax simply do not compile there and are skipped and counted)."""
    if _extra_cache:
        return _extra_cache[0]
    out = []
    for root in EXTRA_DIRS:
        if not os.path.isdir(root):
            continue
        for d, dirs, files in os.walk(root):
            dirs.sort()
            for f in sorted(files):
                if f.endswith(".py"):
                    p = os.path.join(d, f)
                    try:
                        sz = os.path.getsize(p)
                    except OSError:
                        continue
                    if 0 < sz <= 400000:
                        out.append((p, sz))
    _extra_cache.append(out)
    return out


def pyver(v):
    a, b = v.split(".")
    return (int(a), int(b))


def w1_cases(ctx):
    import corpus
    os.environ.setdefault("VERIF_REPO", ctx.repo)
    return corpus.w1_cases()


def w9_cases(ctx, n, n_src=None):
    out = [{"k": "w9", "seed": ctx.seed, "i": i} for i in range(n)]
    out += [{"k": "w9src", "seed": ctx.seed, "i": i} for i in range(n_src if n_src is not None else n // 4)]
    # a constant beside each of its look-alikes, big containers differing in one slot's type: every pair in the thorough tier,
    # a seed-rotated third in the quick tier
    import gen_const
    npairs = len(gen_const.lookalike_pairs())
    idx = list(range(npairs)) if ctx.tier != "quick" else [j for j in range(npairs) if (j + ctx.seed) % 3 == 0]
    out += [{"k": "w9", "seed": ctx.seed, "i": 100000 + j, "pair": j} for j in idx]
    # (both members referenced: as module constants or inside a function, alternating with the seed)
    out += [{"k": "w9", "seed": ctx.seed, "i": 1000000 + j, "pair": 1000000 + j, "layout": (j + ctx.seed) % 2} for j in range(len(gen_const.family_pairs()))]
    out += [{"k": "w9", "seed": ctx.seed, "i": 2000000 + j, "pair": 2000000 + j} for j in range(len(gen_const.BIG_CONSTANTS))
            if ctx.tier != "quick" or j == (ctx.seed % 2) * 2 or j == 1]
    return out


def corpus_cases(ctx, v, n_files=0, all_files=False, n_w3=0, w4=True, w1=True, modes=0, w3_size=1.0,
                 max_file_bytes=None, w4_filter=None, w1_max_bytes=None, max_w4_bytes=None, n_extra=0, all_extra=False, n_w9=None):
    """List of case descriptors for interpreter v (deterministic in ctx.seed)."""
    cases = []
    if w1:
        for c in w1_cases(ctx):
            if w1_max_bytes and c["k"] == "file" and os.path.getsize(c["path"]) > w1_max_bytes:
                continue
            cases.append(c)
    files = stdlib_files(ctx, v)
    if max_file_bytes:
        files = [f for f in files if f[1] <= max_file_bytes]
    r = rng(ctx.seed, "w2", v)
    if all_files:
        chosen = list(files)
    else:
        chosen = r.sample(files, min(n_files, len(files)))
    for p, _sz in chosen:
        cases.append({"k": "file", "path": p, "id": "w2:" + os.path.relpath(p, ctx.stdlib_dir(v))})
    if n_extra or all_extra:
        ex = extra_files(ctx)
        if max_file_bytes:
            ex = [f for f in ex if f[1] <= max_file_bytes]
        rx = rng(ctx.seed, "extra", v)
        for p, _sz in (ex if all_extra else rx.sample(ex, min(n_extra, len(ex)))):
            cases.append({"k": "file", "path": p, "id": "extra:" + "/".join(p.split("/")[-3:])})
    if modes:
        pool = r.sample(files, min(modes, len(files)))
        for p, _sz in pool:
            for opt in (1, 2):
                cases.append({"k": "file", "path": p, "opt": opt,
                              "id": "w2m:O%d:%s" % (opt, os.path.relpath(p, ctx.stdlib_dir(v)))})
    for i in range(n_w3):
        c = {"k": "gen", "seed": ctx.seed, "i": i, "size": w3_size}
        if i % 7 == 5:
            c["opt"] = 2
        elif i % 7 == 6:
            c["opt"] = 1
        cases.append(c)
    if n_w3:
        # W4a: the same generated programs re-lined through the AST (real compiler, hostile line numbers)
        for i in range(max(4, n_w3 // 3)):
            cases.append({"k": "ast", "seed": ctx.seed, "i": i, "base": {"k": "gen", "seed": ctx.seed, "i": i, "size": w3_size}})
    if n_w3:
        # W4b: programs whose identifiers and texts are rewritten through the AST (names the parser would have normalised
        # or refused, texts no source file can hold); function-rich hand-written bases first, then generated programs
        nb = len(gen_w4.ASTNAME_BASES)
        for i in range(nb + max(4, n_w3 // 4)):
            base = {"k": "src", "id": "namebase%d" % i, "text": gen_w4.ASTNAME_BASES[i]} if i < nb else \
                   {"k": "gen", "seed": ctx.seed, "i": i, "size": w3_size}
            cases.append({"k": "astnames", "seed": ctx.seed, "i": i, "base": base})
    if n_w9 is None:
        n_w9 = max(24, n_w3 // 2) if n_w3 else 0
    if n_w9:
        # W9: code objects whose constants and names are replaced by hostile values (not compiler output)
        cases.extend(w9_cases(ctx, n_w9))
    if w4:
        if w4_filter is None:
            cases.extend(gen_w4.twin_sequences(pyver(v)))
            cases.extend(gen_w4.odd_filename_cases(pyver(v)))
            if pyver(v) >= (3, 10):
                for id_, text, stmt in gen_w4.noline_sources(pyver(v)):
                    cases.append({"k": "astnoline", "id": "w4:" + id_, "text": text, "stmt": stmt})
        t = gen_w4.templates(pyver(v), ctx.tier)
        for i, (id_, _s, _m, _o) in enumerate(t):
            if max_w4_bytes and len(_s) > max_w4_bytes:
                continue
            if w4_filter is None or w4_filter(id_):
                cases.append({"k": "w4", "i": i, "tier": ctx.tier})
    return cases


def split(ctx, v, cases, nshards, label="", extra=None):
    """Round-robin split after a seeded shuffle (balances big files)."""
    r = rng(ctx.seed, "split", v, label)
    cases = list(cases)
    r.shuffle(cases)
    shards = []
    for k in range(nshards):
        part = cases[k::nshards]
        if not part:
            continue
        s = {"interp": v, "cases": part, "label": "%s%s#%d" % (label, v, k), "tier": ctx.tier, "seed": ctx.seed,
             "shard": k}
        if extra:
            s.update(extra)
        shards.append(s)
    return shards


def per_interp_shards(ctx):
    return max(1, ctx.ncpu // max(1, len(ctx.producers)))
