# W4: hostile parameterised sources that straddle the arithmetic boundaries named in the
# properties (operand widths, jump widths, line deltas, byte gaps, table sizes).
# templates(pyver, tier) -> list of (id, source, mode, optimize)
from __future__ import print_function


def _terms(k, name="x"):
    # k binary terms: 4 bytes of bytecode each after the first (2 loads + op)
    return "-" + name + ("-" + name) * (k - 1)


def templates(pyver, tier, rng=None):
    out = []

    def add(id_, src, mode="exec", opt=0):
        out.append((id_, src, mode, opt))

    thorough = tier == "thorough"

    # ---- repo-inspired basics in other modes
    add("eval-expr", "a + b * (c if d else e)", "eval")
    add("single-stmt", "x = 1\n", "single")
    add("single-expr", "f(x)\n", "single")
    add("eval-lambda", "lambda a, *b, c=1, **d: (yield)", "eval")
    add("eval-genexp-multiline", "(x\nfor x in\ny\nif x)", "eval")
    evals = ["[i for i in x if i]", "{k: v for k, v in x}", "(yield)", "lambda *a, k=1, **kw: (a, k, kw)", "a if b else c if d else e",
             "f'{a!r:>{w}} {b}'", "x[1:2, ::3, ...]", "a < b <= c != d", "not (a and b or c)", "(a, *b, c)", "{**a, 'k': 1}", "[*a, *b]",
             "f(*a, k=1, **kw)", "1 if 0 else 2", "-(1e999 - 1e999)", "(0.0, -0.0, 1, True, 1.0, 'a', b'a')", "x in {1, 2, 3}",
             "a.b.c(d)[e]", "await_ + 1", "(lambda: (yield from x))", "\n".join(["(a +"] + ["b%d +" % i for i in range(40)] + ["c)"]),
             "[" + ", ".join("n%d" % i for i in range(300)) + "]", "'%s' % (a,)", "a @ b ** -c // d % e << f >> g & h ^ i | j"]
    if pyver >= (3, 8):
        evals += ["(y := f(x)) and y", "[y := 1, y ** 2]", "f'{x=}'"]
    for n, e in enumerate(evals):
        add("eval-%d" % n, e, "eval")
    singles = ["x", "x = 1", "x += 1; y = 2", "del x", "import a.b as c", "from a import *", "assert x, 'm'", "global g; g = 1",
               "if a:\n    b\nelse:\n    c\n", "for i in x:\n    i\n", "while a:\n    break\n", "with a as b:\n    b\n",
               "try:\n    a\nexcept E:\n    b\n", "def f(a, b=1):\n    'doc'\n    return a\n", "class A(B, metaclass=M):\n    x: int = 1\n",
               "async def f():\n    async with a as b:\n        await b\n", "x: int", "x: int = 1", "f(\n 1,\n 2)\n", "raise E from None", "a, b = b, a", "print(x)", "lambda: 1"]
    for n, e in enumerate(singles):
        add("single-%d" % n, e if e.endswith("\n") else e + "\n", "single")
    for opt in (1, 2):
        add("opt%d-assert-doc" % opt, 'def f(a):\n    """doc"""\n    assert a, "m"\n    if __debug__:\n        return 1\n    return 2\n', "exec", opt)
        add("opt%d-class-doc" % opt, 'class A:\n    """doc"""\n    def m(self):\n        "mdoc"\n        return "s"\n', "exec", opt)

    # ---- table sizes: names / constants / locals / cells
    sizes = [254, 255, 256, 257, 258]
    if thorough:
        sizes += [511, 512, 513, 65535, 65536, 65537]
    for n in sizes:
        add("names-%d" % n, "\n".join("n%d" % i for i in range(n)) + "\n")
        add("consts-%d" % n, "x = [" + ", ".join(str(i + 1000) for i in range(n)) + "]\ny = 5\n")
        add("strconsts-%d" % n, "def f():\n    return [" + ", ".join("'s%d'" % i for i in range(n)) + "]\n")
        if n <= 600:
            add("locals-%d" % n, "def f():\n" + "".join("    v%d = %d\n" % (i, i % 7) for i in range(n)) + "    return v0\n")
            add("cells-%d" % n, "def f():\n" + "".join("    v%d = %d\n" % (i, i % 7) for i in range(n)) +
                "    def g():\n        return " + " + ".join("v%d" % i for i in range(0, n, 1)) + "\n    return g\n")
            add("args-%d" % n, "def f(" + ", ".join("a%d" % i for i in range(min(n, 255))) + "):\n    return a0\n")
    # one case beyond 65535 table entries / jump distance even in the quick tier (three-unit operands)
    add("huge-65600-names-loop", "while c:\n    x = [" + ", ".join("n%d" % i for i in range(65600)) + "]\ny = [n65599, n256, n65536]\n")
    # every operand table past one byte together with jumps whose operands depend on the instruction sizes: cells and free
    # variables (free-variable operands are offset by the number of cells), locals, names, constants
    for ncell in (255, 256, 300):
        body = "def outer(fv, fw):\n  def mid():\n" + "".join("    v%d = %d\n" % (i, i) for i in range(ncell))
        body += "    def inner():\n      return (" + ", ".join("v%d" % i for i in range(ncell)) + ")\n"
        body += "    if fv:\n      x = fv\n    else:\n      x = fw\n    while x:\n      x -= fv\n      if x > fw: continue\n    return inner\n  return mid\n"
        add("cells-%d-free-jumps" % ncell, body)
    add("locals-300-jumps", "def f(a):\n" + "".join("  l%d = a\n" % i for i in range(300)) + "  while l299:\n    if l298: l299 = l0\n    else: l299 = l1\n  return l299\n")
    # sibling functions on one line that are identical except inside the code nested in them (near twins: the compiler keeps both)
    add("near-twin-lambdas", "lo, hi = (lambda xs: min(x for x in xs)), (lambda xs: min(-x for x in xs))\n")
    add("near-twin-lambdas-in-def", "def f(x):\n    a, b, c = (lambda: [i for i in x]), (lambda: [i + 1 for i in x]), (lambda: [i for i in x])\n    return a, b, c\n")
    add("near-twin-deeper", "p, q = (lambda: (lambda: (lambda: 1))), (lambda: (lambda: (lambda: 2)))\n")
    add("near-twin-classes", "class A: f = lambda s: [1 for _ in s]\nclass A: f = lambda s: [2 for _ in s]\n")
    # two different parents on one line, each owning a nested code object that compiles to the same thing
    add("same-line-parents-equal-children", "f = lambda: [i for i in (1, 2)]; g = lambda x: [i for i in (1, 2)]\n")
    add("same-line-defs-equal-children", "def a(): return (lambda: 1)\ndef b(): return (lambda: 1)\n".replace("\ndef b", "; b = lambda: (lambda: 1)\ndef c"))
    add("same-line-classes-equal-methods", "class A: m = lambda s: (lambda: s)\nclass B: m = lambda s: (lambda: s)\nx = [lambda: (lambda: 0), lambda q: (lambda: 0)]\n")
    # more than 255 parameters (the limit of 255 arguments was lifted in 3.7)
    for npos, nkw in ((255, 0), (256, 0), (200, 56), (300, 10), (0, 256)):
        sig = ", ".join(["p%d" % i for i in range(npos)] + (["*"] if nkw else []) + ["k%d=%d" % (i, i) for i in range(nkw)])
        add("params-%d-%d" % (npos, nkw), "def f(%s):\n    'doc'\n    return %s\n" % (sig, "p0" if npos else "k0"))
    # constants nested as deep as each interpreter's parser allows (3.7: ~92, 3.8: ~98, 3.9+: 200 levels)
    for d in (30, 60, 90, 97, 150, 195):
        add("const-nested-tuple-%d" % d, "x = " + "(" * d + "1" + ",)" * d + "\ny = " + "(" * d + "1.0" + ",)" * d + "\n")
    add("names-attr-chain", "x = " + ".".join("a%d" % i for i in range(300)) + "\n")

    # ---- jumps over bodies: forward (if / for) and backward (while), width classes
    body_sizes = list(range(58, 70)) + list(range(122, 134))
    if thorough:
        body_sizes += list(range(16376, 16392)) + list(range(32760, 32776))
    for k in body_sizes:
        if k > 1000 and not thorough:
            continue
        body = "    y = 1\n" * k
        add("if-%d" % k, "if x:\n" + body + "z = 2\n")
        if k < 1000 or k % 4 == 0:
            add("while-%d" % k, "while x:\n" + body + "z = 2\n")
            add("for-else-%d" % k, "for i in x:\n" + body + "else:\n    y = 2\nz = 3\n")
            add("fn-if-else-%d" % k, "def f(x):\n    if x:\n" + "        y = 1\n" * k + "    else:\n        y = 2\n    return y\n")
    for k in (60, 64, 126, 130) + ((16380, 32766) if thorough else ()):
        add("try-%d" % k, "try:\n" + "    y = 1\n" * k + "except E:\n    pass\nfinally:\n    z = 1\n")
        add("with-%d" % k, "with a as b:\n" + "    y = 1\n" * k + "z = 1\n")
        add("fn-tail-loop-%d" % k, "def f(x):\n" + "    y = 1\n" * k + "    while 1:\n        x = x + 1\n")
        add("fn-tail-loop2-%d" % k, "def f(x):\n" + "    y = 1\n" * k + "    while x:\n        pass\n")
        add("fn-tail-for-%d" % k, "def f(x):\n" + "    y = 1\n" * k + "    for i in x:\n        for j in i:\n            continue\n")
        add("chained-cmp-%d" % k, "y = 1\n" * k + "while not x < y < z:\n    pass\n")

    # ---- line deltas (forward via blank lines, backward via multi-line calls)
    deltas = [1, 2, 126, 127, 128, 129, 130, 253, 254, 255, 256, 257, 258, 381, 382, 383, 508, 509, 510, 511, 512]
    if thorough:
        deltas += [635, 636, 1000, 32767, 32768, 65536]
    for d in deltas:
        add("fwd-%d" % d, "x = 1" + "\n" * d + "y = 2\n")
        add("bwd-%d" % d, "f(" + "\n" * d + "1)\n")
        add("bwd-kw-%d" % d, "f(a," + "\n" * d + "b=2)\nz = 1\n")
        add("fn-first-%d" % d, "def f():" + "\n" * d + "    return 1\n")
        add("fn-deco-%d" % d, "@d" + "\n" * d + "def f():\n    return 1\n")
        add("bwd-binop-%d" % d, "x = (a +" + "\n" * d + "b) * (c +\n d)\n")
        add("fwd-str-%d" % d, "x = '''" + "\n" * d + "'''\ny = 2\n")
        add("fn-multi-%d" % d, "def f(a):\n    x = a" + "\n" * d + "    return (x," + "\n" * (d // 2 + 1) + "    a)\n")

    # ---- byte gaps: one line with a long expression, then next line
    gaps = list(range(60, 68)) + list(range(124, 132))
    if thorough:
        gaps += list(range(188, 196)) + list(range(252, 260))
    for k in gaps:
        add("gap-%d" % k, "y = " + _terms(k) + "\nz = 1\n")
        add("gap2-%d" % k, "y = " + _terms(k) + "; w = 1\nz = 1\n")
        add("fn-gap-%d" % k, "def f(x):\n    y = " + _terms(k) + "\n    return y\n")
    for k in (64, 65, 127, 128, 129):
        for d in (127, 128, 255, 256, 300):
            add("gap-%d-line-%d" % (k, d), "y = " + _terms(k) + "\n" * d + "z = y\n")
            add("gap-%d-bwd-%d" % (k, d), "f(" + "\n" * d + _terms(k) + ")\nz = 1\n")

    # ---- folded constant tuples over several lines (peephole <=3.8 / AST optimiser)
    for n in (2, 3, 5, 40, 130):
        add("fold-tuple-%d" % n, "t = (\n" + "".join("    %d,\n" % i for i in range(n)) + ")\nu = 1\n")
        add("fold-call-star-%d" % n, "r = f(\n" + "".join("    's%d',\n" % i for i in range(n)) + "    *flags)\nu = 1\n")
        add("fold-call-star-fn-%d" % n, "def g(flags):\n    r = f(\n" + "".join("        's%d',\n" % i for i in range(n)) + "        *flags\n    )\n    return r\n")
        for pre in (254, 255, 256, 257, 300):
            add("fold-tuple-%d-after-%d-consts" % (n, pre),
                "x = [" + ", ".join(str(i + 1000) for i in range(pre)) + "]\nt = (\n" +
                "".join("    %d,\n" % (i + 5000) for i in range(n)) + ")\nu = f(\n 'a',\n 'b',\n *t)\n")
        for d in (126, 127, 128, 129, 255):
            add("fold-tuple-%d-gapline-%d" % (n, d), "t = (\n" + "".join("    %d," % i + "\n" * (d if i == n // 2 else 1) for i in range(n)) + ")\nu = 1\n")
    # default values over several lines: the peephole pass (<=3.9) folds them into one constant tuple; with >255 constants
    # before it the folded LOAD_CONST needs EXTENDED_ARG and a line-table entry lands inside that instruction (F-C01a)
    for pre in (250, 254, 255, 256, 257, 300):
        add("defaults-multiline-after-%d-consts" % pre,
            "a0 = None; a1 = (); a2 = 's'; a3 = 1.5\nx = [" + ", ".join(str(i + 1000) for i in range(pre)) + "]\ndef f(a, b=None, c=(),\n      d=(), e='s',\n      g=1.5):\n    pass\n")
        add("kwdefaults-multiline-after-%d-consts" % pre,
            "a0 = None; a1 = (); a2 = 'k1'; a3 = 'k2'\nx = [" + ", ".join(str(i + 1000) for i in range(pre)) + "]\ny = g(\n 'k1',\n 'k2',\n *x)\nz = (a0,\n None, (),\n 'k1')\n")
    add("fold-binop-multiline", "x = (1 +\n     2 +\n     3)\ny = ('a'\n     'b')\nz = -(\n 1)\n")
    add("fold-in-set", "def f(x):\n    return x in {\n 1,\n 2,\n 3}\n")
    add("fold-tuple-index", "x = (1, 2, 3)[\n 1]\n")

    # ---- dead code shapes
    add("dead-after-return", "def f():\n    return 1\n    def g():\n        def h(): pass\n    class C: pass\n    x = lambda: 1\n")
    add("dead-if0", "if 0:\n    def g(): pass\nelse:\n    x = 1\nwhile 0:\n    class C: pass\n")
    add("dead-if0-fn", "def f(a):\n    if 0:\n        def g(): return a\n    if not 1:\n        y = [i for i in a]\n    return a\n")
    add("dead-ternary", "x = (lambda: 1) if 1 else (lambda: 2)\ny = 0 and (lambda: 3)\n")
    add("dead-debug", "def f():\n    if __debug__:\n        def g(): pass\n    else:\n        def h(): pass\n", "exec", 0)
    add("dead-debug-O", "def f():\n    if __debug__:\n        def g(): pass\n    else:\n        def h(): pass\n", "exec", 1)
    add("dead-assert-O", "def f(x):\n    assert (lambda: x)(), [i for i in x]\n    return 1\n", "exec", 2)
    add("dead-after-raise", "def f():\n    raise E\n    return [i for i in x]\n")
    add("dead-after-continue", "for i in x:\n    continue\n    def g(): pass\n")
    add("unused-cell", "def fn():\n    return\n    def i():\n        i()\n")
    add("class-cell", "class A:\n    def f(self):\n        return __class__\n    def g(self):\n        return super().g()\n")
    add("dup-class", "class A: pass\nclass A: pass\n")
    add("multi-returns", "def _():\n    return\n    return\n")

    # ---- closures: cells x free variables x dead code
    add("closure-free-plus-dead-cell", "def outer():\n    a = 1\n    def mid():\n        if 0:\n            x = 2\n            def inner():\n                return x\n        return a\n    return mid\n")
    add("closure-free-before-cell", "def deco(arg):\n    def wrapper(fn):\n        def inner(*a):\n            return fn(arg, *a)\n        return inner\n    return wrapper\n")
    add("closure-cell-before-free", "def deco(z_arg):\n    def wrapper(fn):\n        def inner(*a):\n            return fn(z_arg, *a)\n        return inner\n    return wrapper\n")
    add("closure-many", "def o(a, b, c):\n    def m(d, e):\n        x = a\n        def i():\n            return (c, e, x, b, d)\n        y = b\n        if 0:\n            q = 1\n            def dead(): return q\n        return i, y\n    return m\n")
    add("closure-class", "def o(a):\n    class K:\n        z = a\n        def m(self):\n            return (__class__, a, super().m())\n    return K\n")
    add("closure-class-cell-and-free", "class A:\n    def f(self):\n        class B:\n            defined_in = __class__\n            def g(self):\n                return __class__\n            def h(self):\n                return super().h()\n        return B\n")
    add("closure-classderef", "def o(x):\n    class K:\n        y = x\n        def m(self):\n            return x, __class__\n    return K\n")
    add("closure-kwonly-cell", "def o(*, k, **kw):\n    def i(x, *, y=k):\n        return (k, kw, x, y)\n    return i\n")
    add("closure-nonlocal-dead", "def o():\n    n = 0\n    t = 1\n    def i():\n        nonlocal n\n        n += t\n        return\n        def dead(): return n, t\n    return i\n")
    add("closure-unused-free-order", "def o(b, a):\n    def m():\n        v = b\n        w = 2\n        def i(): return (w, a)\n        return i, v\n    return m\n")
    # ---- signatures
    add("sig-star-kwonly", "def f(*va, c0=1): return va, c0\ndef g(a, *va, c0, c1=2, **kw): return a\n")
    add("sig-kwonly-only", "def f(*, k): return k\nlambda *, k=1: k\n")
    add("sig-varkw", "def f(**kw): return kw\ndef g(*a, **kw): return a\n")
    if pyver >= (3, 8):
        add("sig-posonly", "def f(a, b=1, /, c=2, *d, e, f=3, **g): return a\ndef h(a, /): return a\n")
    add("sig-async", "async def f(a, *b, c=1):\n    await a\nasync def g(a, *, b):\n    yield a\n")
    add("doc-shapes", 'def a():\n    "doc"\ndef b():\n    b"x"\ndef c():\n    "doc"; return "doc"\ndef d():\n    x = "nodoc"\n    return x\ndef e():\n    return "first str const"\nf = lambda: "lam"\n')
    add("comprehensions", "a = [i for i in x]\nb = {i for i in x}\nc = {i: i for i in x}\nd = (i for i in x)\nasync def f():\n    return [i async for i in x]\n")
    # scopes with the implicit '.0' parameter whose first constant is a string, in every flavour that makes them
    # plain / generator / coroutine / async generator (await in the element or the condition vs. async for)
    add("implicit-scope-first-const-str",
        "async def f(xs, g):\n"
        "    a = (await g('key', x) for x in xs)\n"
        "    b = [await g('k2', x) for x in xs]\n"
        "    c = {await g('k3', x) for x in xs}\n"
        "    d = {x: await g('k4', x) for x in xs}\n"
        "    e = (x async for x in xs if x != 'sep')\n"
        "    h = (x for x in xs if await g('k5', x))\n"
        "    i = ['k6' + x async for x in xs]\n"
        "    return a, b, c, d, e, h, i\n"
        "def s(xs):\n"
        "    return [x for x in xs if x != 'sep'], (x + 't' for x in xs), {x: 'v' for x in xs}, {'w' + x for x in xs}\n")
    add("future-annotations", "from __future__ import annotations\ndef f(a: int) -> str:\n    x: int = 1\n    return a\n")
    for fut in ("division", "absolute_import", "print_function", "unicode_literals", "generator_stop", "barry_as_FLUFL", "with_statement", "nested_scopes", "generators"):
        src = "from __future__ import %s\ndef f(): return 1\n" % fut
        if fut == "barry_as_FLUFL":
            src += "x = 1 <> 2\n"
        add("future-" + fut, src)

    # ---- constants
    add("const-huge-hex-literal", "x = 0x" + "f" * 4000 + "\ny = -0x7" + "0" * 4200 + "\nz = 0b" + "10" * 9000 + "\n")
    add("const-kinds", "x = [0.0, -0.0, 1, True, 1.0, 'a', b'a', 1e999, -1e999, 1e999-1e999, 2**100, -2**63, ..., None, 1j, -0j, (1, (2.0, (True,))), '\\ud800', '\\U0001f600']\n")
    add("const-nan-fold", "x = 1e999 - 1e999\ny = (1e999 - 1e999, -(1e999 - 1e999))\nz = 1e999 * 0\nw = x in {1e999-1e999, 2}\n")
    add("const-zero-family", "a = (0.0, -0.0, 0, False, 0j, -0j, complex(0, -0.0))\nb = 0.0\nc = -0.0\nd = 0\ne = False\nf = [0.0, -0.0, 0.0, -0.0]\n")
    add("const-frozenset", "def f(x):\n    return x in {1, 'a', b'a', 2.0, None, (1, 2), ...}, x in {0.0}, x in {-0.0}\n")
    add("const-dup-by-eq", "a = 1; b = 1.0; c = True; d = (1,); e = (1.0,); f = (True,); g = 'a'; h = b'a'\n")
    add("const-surrogate-doc", "def f():\n    '\\udc80 doc'\n    return '\\ud800'\n")
    add("many-statements-one-line", "; ".join("a%d = %d" % (i, i) for i in range(300)) + "\n")
    add("long-line-and-bytecode", "y =" + ("-x" * 100) + ("\n" * 300) + "z = y\n")
    add("long-jump", "x = x or " + "-x" * 100 + "\nwhile x:\n    x -= 1\n")
    add("nested-deep", "def a():\n def b():\n  def c():\n   def d():\n    def e():\n     return lambda: [lambda: (i for i in x)]\n")
    for z in opcode_zoo(pyver):
        add(*z)
    if pyver >= (3, 10):
        add("match-stmt", "match x:\n    case [1, 2, *r]:\n        y = r\n    case {'k': v, **rest}:\n        y = v\n    case P(a=1) | Q():\n        y = 0\n    case str() as s if s:\n        y = s\n    case _:\n        y = None\n")
        add("with-paren", "with (a as b,\n      c as d):\n    pass\n")
        for k in (60, 124, 130):
            add("with-noline-%d" % k, "def f():\n    with a:\n" + "        y = 1\n" * k + "    return 1\n")
            add("try-finally-ret-%d" % k, "def f():\n    try:\n" + "        y = 1\n" * k + "        return y\n    finally:\n        z = 2\n")
    return out


def noline_sources(pyver):
    """3.10: sources for the AST recipe that makes the real assembler emit no-line runs (statement without a location in a
    block that joins two branches and is not an exit block)."""
    out = []
    for n in (3, 20, 60, 125, 126, 127, 128, 129, 140, 255, 260, 400):
        out.append(("noline-%d" % n, "if a:\n    b = 1\nx = [" + ", ".join("y%d" % i for i in range(n)) + "]\nif c:\n    d = 1\ne = 2\n", 1))
        out.append(("noline-fn-%d" % n, "def f(a, c):\n    if a:\n        b = 1\n    x = [" + ", ".join("a" for i in range(n)) + "]\n    if c:\n        d = 1\n    return x\n", None))
    return out


def twin_sequences(pyver):
    """Sequences of near-twin programs that must be processed one after the other IN ONE PROCESS: code objects that
    compare equal (or whose constants compare equal by ==) but differ in line table, filename or constant types.
    They expose state kept between calls (caches keyed by == / hash)."""
    seqs = []

    def seq(id_, items):
        seqs.append({"k": "seq", "id": "twin:" + id_, "items": [{"text": t, "filename": f} for t, f in items]})

    body = "def f(a, b):\n    x = a + b\n%s    y = x * 2\n%s    return y\n"
    seq("blank-line-moved", [(body % ("", "\n"), "<twin>"), (body % ("\n", ""), "<twin>"), (body % ("\n\n", ""), "<twin>")])
    seq("filename", [("def f():\n    return [i for i in x]\n", "a.py"), ("def f():\n    return [i for i in x]\n", "b.py")])
    pairs = [("(1, 2)", "(1.0, 2.0)"), ("(0, 1)", "(False, True)"), ("(0.0,)", "(-0.0,)"), ("0.0", "-0.0"), ("1", "True"), ("1", "1.0"),
             ("'a'", "b'a'"), ("((1,), 'a')", "((1.0,), 'a')"), ("0j", "-0j"), ("(1e999 - 1e999)", "-(1e999 - 1e999)")]
    for i, (a, b) in enumerate(pairs):
        t = "def f(v=%s):\n    return v, %s\nz = [%s]\n"
        seq("consts-%d" % i, [(t % (a, a, a), "<twin>"), (t % (b, b, b), "<twin>"), (t % (a, b, a + ", " + b), "<twin>")])
        seq("in-set-%d" % i, [("def f(v):\n    return v in {%s, 5}\n" % a, "<twin>"), ("def f(v):\n    return v in {%s, 5}\n" % b, "<twin>")])
    seq("lambda-lines", [("f = [lambda: 1,\n     lambda: 1]\n", "<twin>"), ("f = [lambda: 1, lambda: 1]\n", "<twin>")])
    seq("same-program-thrice", [("class A:\n    def m(self): return 1\n", "<twin>")] * 3)
    seq("docstring-vs-first-const", [("def f():\n    'text'\n", "<twin>"), ("def f():\n    return 'text'\n", "<twin>"), ("def f():\n    'text'\n    return 'text'\n", "<twin>")])
    seq("kwonly-star", [("def f(*a, k=1): return a\n", "<twin>"), ("def f(a, *, k=1): return a\n", "<twin>"), ("def f(a, k=1): return a\n", "<twin>")])
    return seqs


def odd_filename_cases(pyver):
    """The same small program compiled under unusual file names (co_filename is part of every code object)."""
    src = "def f(a):\n    'doc'\n    return [i for i in a]\nclass C:\n    x = lambda self: 1\n"
    names = ["", " ", "\u00fc\u00f1\u00ed/\u4e2d.py", "a\nb.py", "x" * 3000, "<stdin>", "C:\\dir\\file.py", "\udc80bad.py", "file\x00name.py" if False else "tab\tname.py",
             "'quoted'.py", "{\"string\": 1}", "\U0001f600.py"]
    out = []
    for i, fn in enumerate(names):
        out.append({"k": "src", "id": "w4:filename-%d" % i, "text": src, "filename": fn})
    return out


def opcode_zoo(pyver):
    """Rarely used opcodes, so that the opcode coverage of the quick corpus is complete."""
    src = ("def f(a, b):\n    global g\n    a @= b; a %= b; a **= b; a /= b; a >>= b; a <<= b; a //= b; a ^= b; a |= b; a &= b\n"
           "    s = {*a, *b}\n    del g\n    del a.x, b[0]\n    return s\n")
    out = [("opcode-zoo", src, "exec", 0)]
    if pyver >= (3, 10):
        out.append(("opcode-zoo-match", "def m(x):\n    match x:\n        case [a, b, c, d, *e] if a:\n            return a, b, c, d, e\n"
                    "        case {'k': v, 'l': w, **r}:\n            return v, w, r\n        case P(a, b, c=d):\n            return a\n", "exec", 0))
    return out


# Function-rich programs used as bases for the AST identifier/text rewriting (W4b); valid on 3.7 (no positional-only syntax).
ASTNAME_BASES = [
    "def f(a, b=1, *c, d, e=2, **g):\n    'doc of f'\n    x = a\n    return (x, b, c, d, e, g)\n"
    "def h(*only):\n    \"\"\"star only\"\"\"\n    return only\n"
    "def k(**kw):\n    return kw\n"
    "def m(file, name='n', *, key=None):\n    'uses names'\n    return [file for name in key or ()]\n",
    "class C:\n    'class doc'\n    attr = 'text'\n    def meth(self, value, *rest, flag=False, **more):\n        'method doc'\n"
    "        local = value\n        def inner(p, q=local):\n            'inner doc'\n            nonlocal local\n            local = p\n            return q\n"
    "        return inner\n"
    "    async def co(self, x, *, y):\n        'coroutine doc'\n        return x\n"
    "    def gen(self, n):\n        'generator doc'\n        for i in range(n):\n            yield i\n",
    "glob = 'g'\ndef outer(arg1, arg2='d'):\n    'outer'\n    global glob\n    glob = arg1\n    lam = lambda z, w=arg2, *va, kwo='k', **vk: (z, w, va, kwo, vk)\n"
    "    try:\n        pass\n    except Exception as err:\n        return err\n    return lam(arg1, kwo=arg2)\n"
    "outer(1, arg2='2')\n",
    "def first_const_is_name_like(p):\n    return 'p'\n"
    "def doc_only():\n    'only a docstring'\n"
    "def strs(s='default text', t=b'bytes'):\n    'd'\n    return s + 'tail', t, \"it's\", 'say \"x\"'\n",
]
