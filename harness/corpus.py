# Case descriptors -> compiled code objects.  Stdlib only, 3.7+.
from __future__ import print_function

import glob
import os
import sys
import warnings

import hcommon as H
import gen_src
import gen_w4

NL = "\n"
W1_INLINE = [
    ("blank", "\n"), ("variable", "a"), ("fn", "def fn(): pass"), ("class", "class A: pass"),
    ("duplicate class", "class A: pass\nclass A: pass\n"),
    ("long line jump", "x = 1" + NL * 127 + "\ny=2"),
    ("long jump", "x = x or " + "-x" * 100 + "\nwhile x:\n    x -= 1"),
    ("bpo-46724", "while not x < y < z:\n    pass"),
    ("long line and bytecode jump", "y =" + ("-x" * 100) + ("\n" * 300) + "z = y"),
    ("negative line jump", "f(\n1)"), ("long negative jump", "f(" + "\n" * 256 + "1)"),
    ("multiple returns", "def _():\n    return\n    return\n"), ("complex", "_ = 0j"),
    ("unused cellvar", "\ndef fn():\n    return\n    def i():\n        i()\n"),
]


def repo_dir():
    return os.environ.get("VERIF_REPO", "/repo")


def w1_cases():
    out = [{"k": "src", "id": "w1:" + n, "text": t, "filename": "<string>"} for n, t in W1_INLINE]
    d = os.path.join(repo_dir(), "code_data", "_test_minimized")
    for p in sorted(glob.glob(os.path.join(d, "*.py"))):
        out.append({"k": "file", "path": p, "id": "w1:" + os.path.basename(p)})
    return out


_w4_cache = {}


def w4_templates(tier):
    if tier not in _w4_cache:
        _w4_cache[tier] = gen_w4.templates(H.PY, tier)
    return _w4_cache[tier]


def resolve(case):
    """case -> (id, text, filename, mode, optimize) ; text may be bytes for files."""
    k = case["k"]
    mode = case.get("mode", "exec")
    opt = case.get("opt", 0)
    if k == "file":
        with open(case["path"], "rb") as f:
            text = f.read()
        return case.get("id", case["path"]), text, case.get("filename", case["path"]), mode, opt
    if k == "src":
        return case["id"], case["text"], case.get("filename", "<src>"), mode, opt
    if k == "gen":  # W3
        rng = H.rng_for(case["seed"], "w3", case["i"])
        text = gen_src.gen_program(rng, H.PY, case.get("size", 1.0))
        return "w3:%s:%s" % (case["seed"], case["i"]), text, "<w3-%s-%s>" % (case["seed"], case["i"]), mode, case.get("opt", 0)
    if k == "w4":
        t = w4_templates(case.get("tier", "quick"))
        id_, text, mode, opt = t[case["i"]]
        return "w4:" + id_, text, "<w4-%s>" % id_, mode, opt
    if k == "w9src":
        import gen_const
        id_, text = gen_const.source_case(case["seed"], case["i"])
        return id_, text, "<%s>" % id_, mode, opt
    raise ValueError("unknown case kind %r" % (k,))


RELINE_DELTAS = [1, 1, 1, 2, 3, 10, 126, 127, 128, 129, 130, 253, 254, 255, 256, 257, 381, 508, 510, 511, 1000, 40000]


def reline(tree, rng, noline_ok):
    """Reassign statement line numbers of a parsed program by a random walk with boundary deltas (both directions).
    The real compiler then emits line tables that source text alone rarely produces."""
    import ast
    line = [rng.choice([1, 1, 5, 300])]
    original = {}
    for n in ast.walk(tree):
        if hasattr(n, "lineno"):
            original[id(n)] = n.lineno

    def visit_body(body):
        for st in body:
            d = rng.choice(RELINE_DELTAS) if rng.random() < 0.5 else 1
            if rng.random() < 0.3 and line[0] - d >= 1:
                d = -d
            line[0] += d
            new = line[0]
            if noline_ok and rng.random() < 0.04 and not isinstance(st, (ast.FunctionDef, ast.ClassDef, ast.AsyncFunctionDef)):
                new = -1
            old = original.get(id(st))
            for n in ast.walk(st):
                if hasattr(n, "lineno") and not (n is not st and isinstance(n, ast.stmt)):
                    # keep the shape of multi-line expressions (offset from the statement's original line)
                    off = (original.get(id(n), old) - old) if (old is not None and new != -1 and rng.random() < 0.7) else 0
                    n.lineno = max(1, new + off) if new != -1 else -1
                    if hasattr(n, "end_lineno"):
                        n.end_lineno = n.lineno
            for field in ("body", "orelse", "finalbody"):
                sub = getattr(st, field, None)
                if isinstance(sub, list) and sub and isinstance(sub[0], ast.stmt):
                    visit_body(sub)
            for h in getattr(st, "handlers", []) or []:
                line[0] += 1
                h.lineno = line[0]
                if hasattr(h, "end_lineno"):
                    h.end_lineno = h.lineno
                visit_body(h.body)
            for c in getattr(st, "cases", []) or []:
                visit_body(c.body)
    visit_body(tree.body)
    return tree


NAME_VARIANTS = [
    lambda n: u"\ufb01" + n,          # ligature: the parser would normalise it (NFKC) to "fi", the compiler takes it verbatim
    lambda n: u"\xb5" + n,            # micro sign (NFKC: Greek mu)
    lambda n: n + u"\u02b7",          # modifier letter small w (NFKC: w)
    lambda n: u"\uff4e" + n,          # full-width n
    lambda n: u"\xe9" + n,            # plain non-ASCII identifier
    lambda n: n + u"\udcff",          # lone surrogate: not encodable as UTF-8
    lambda n: n + u"'s",              # apostrophe: not an identifier, still a legal co_varnames entry
    lambda n: n + u"\udce9's",        # surrogate and an apostrophe, no double quote (what os.fsdecode gives for "caf\xe9's")
    lambda n: n + u'"q',              # double quote
    lambda n: n + u"\\n \t",          # backslash, blanks
    lambda n: n + u"\udc80\"'",       # surrogate with both quote kinds
    lambda n: n,
    lambda n: n,
]
TEXT_VARIANTS = [u"tired \U0001f971", u"\U0001fae8 \u061d", u"it's \udce9", u"\udcff'", u'say "\udc80"', u"both ' and \" \ud800", u"back\\slash \udfff's", u"plain \xe9 \u20ac",
                 u"caf\udce9's.py", u"'", u"\udc80", u"\ud83d\ude00 pair then lone \ud83d"]


def rename_identifiers(tree, rng):
    """Rewrite the identifiers a program defines (parameters, assigned names, def/class names), its docstrings and some
    of its string constants through the AST.  The compiler takes AST strings verbatim, so the code objects carry
    names and texts that no source file can: not NFKC-normalised, not identifiers, not encodable."""
    import ast
    defined = set()
    for n in ast.walk(tree):
        if isinstance(n, ast.arg):
            defined.add(n.arg)
        elif isinstance(n, ast.Name) and isinstance(n.ctx, ast.Store):
            defined.add(n.id)
        elif isinstance(n, (ast.FunctionDef, ast.AsyncFunctionDef, ast.ClassDef)):
            defined.add(n.name)
    defined = sorted(d for d in defined if not (d.startswith("__") and d.endswith("__")))
    m = dict((d, rng.choice(NAME_VARIANTS)(d)) for d in defined)
    for n in ast.walk(tree):
        if isinstance(n, ast.arg) and n.arg in m:
            n.arg = m[n.arg]
        elif isinstance(n, ast.Name) and n.id in m:
            n.id = m[n.id]
        elif isinstance(n, (ast.FunctionDef, ast.AsyncFunctionDef, ast.ClassDef)) and n.name in m:
            n.name = m[n.name]
        elif isinstance(n, ast.keyword) and n.arg in m:
            n.arg = m[n.arg]
        elif isinstance(n, (ast.Global, ast.Nonlocal)):
            n.names = [m.get(x, x) for x in n.names]
        elif isinstance(n, ast.ExceptHandler) and n.name in m:
            n.name = m[n.name]
        # string constants (docstrings included): about a third get a hostile text
        s_ = getattr(n, "s", None) if n.__class__.__name__ == "Str" else (getattr(n, "value", None) if n.__class__.__name__ == "Constant" else None)
        if isinstance(s_, str) and rng.random() < 0.35:
            new = rng.choice(TEXT_VARIANTS)
            if n.__class__.__name__ == "Str":
                n.s = new
            else:
                n.value = new
    return tree


def compile_case(case):
    """Returns (id, code, text) or (id, None, reason) when the source does not compile."""
    if case["k"] == "astnames":
        import ast
        id_, text, filename, mode, opt = resolve(case["base"])
        id_ = "astnames:%s:%s" % (case["i"], id_)
        try:
            with warnings.catch_warnings():
                warnings.simplefilter("ignore")
                tree = ast.parse(text, filename)
                r = H.rng_for(case["seed"], "astnames", case["i"])
                tree = rename_identifiers(tree, r)
                fn = r.choice(TEXT_VARIANTS + ["<astnames-%s>" % case["i"]] * 4)
                code = compile(tree, fn, "exec", dont_inherit=True, optimize=opt)
        except (SyntaxError, ValueError, RecursionError, MemoryError, OverflowError, TypeError, SystemError, UnicodeError) as e:
            return id_, None, "astnames-compile:%s" % type(e).__name__
        return id_, code, text
    if case["k"] == "astnoline":
        # 3.10: a statement without a location in a block that joins two branches -> the real assembler emits no-line runs
        import ast
        try:
            tree = ast.parse(case["text"])
            body = tree.body if case.get("stmt") is not None else tree.body[0].body
            st = body[case["stmt"] if case.get("stmt") is not None else 1]
            for n in ast.walk(st):
                if hasattr(n, "lineno"):
                    n.lineno = n.end_lineno = -1
            code = compile(tree, "<%s>" % case["id"], "exec", dont_inherit=True)
        except (SyntaxError, ValueError, TypeError, SystemError, IndexError, AttributeError) as e:
            return case["id"], None, "astnoline-compile:%s" % type(e).__name__
        return case["id"], code, case["text"]
    if case["k"] == "ast":
        import ast
        id_, text, filename, mode, opt = resolve(case["base"])
        id_ = "ast:%s:%s" % (case["i"], id_)
        try:
            with warnings.catch_warnings():
                warnings.simplefilter("ignore")
                tree = ast.parse(text, filename)
                tree = reline(tree, H.rng_for(case["seed"], "reline", case["i"]), H.IS310 and case.get("noline", True))
                code = compile(tree, "<ast-%s>" % case["i"], "exec", dont_inherit=True, optimize=opt)
        except (SyntaxError, ValueError, RecursionError, MemoryError, OverflowError, TypeError, SystemError) as e:
            return id_, None, "ast-compile:%s" % type(e).__name__
        return id_, code, text
    if case["k"] == "w9":
        import gen_const
        try:
            return gen_const.build_case(case["seed"], case["i"], case.get("pair"), case.get("layout"))
        except (ValueError, TypeError, SystemError) as e:
            return "w9:%s" % case["i"], None, "w9-build:%s" % type(e).__name__
    id_, text, filename, mode, opt = resolve(case)
    try:
        with warnings.catch_warnings():
            warnings.simplefilter("ignore")
            code = compile(text, filename, mode, dont_inherit=True, optimize=opt)
    except (SyntaxError, ValueError, RecursionError, MemoryError, OverflowError) as e:
        return id_, None, "compile:%s" % type(e).__name__
    return id_, code, text


def replay_case(case):
    """Self-contained copy of a case for a replay file (text inlined when small)."""
    if case["k"] in ("w9", "astnoline"):
        return case
    if case["k"] in ("ast", "astnames"):
        b = replay_case(case["base"])
        return dict(case, base=b, id="%s:%s:%s" % (case["k"], case["i"], b.get("id")))
    try:
        id_, text, filename, mode, opt = resolve(case)
    except Exception:
        return case
    if isinstance(text, bytes) or len(text) > 20000:
        return dict(case, id=id_)
    if case.get("seq"):
        # replay needs the whole prefix of the sequence in the same process
        return {"k": "seq", "id": case["seq"], "items": case["seq_items"], "judged": id_}
    return {"k": "src", "id": id_, "text": text, "filename": filename, "mode": mode, "opt": opt}


_stormed = [False]


def iter_cases(shard):
    """Yield (case, id, code, text) for every compilable case of a shard."""
    import time
    slow = []
    expanded = []
    for case in shard["cases"]:
        if case["k"] == "seq":
            for n, it in enumerate(case["items"]):
                expanded.append({"k": "src", "id": "%s#%d" % (case["id"], n), "text": it["text"], "filename": it["filename"],
                                 "seq": case["id"], "seq_items": case["items"][:n + 1]})
        else:
            expanded.append(case)
    if shard.get("storm") and not _stormed[0]:
        # the process this shard runs in has already seen a burst of rejected calls (stress.fault_storm)
        _stormed[0] = True
        import stress
        H.IN_STORM[0] = True
        try:
            stress.fault_storm(shard.get("seed", 0))
        finally:
            H.IN_STORM[0] = False
    for case in expanded:
        id_, code, text = compile_case(case)
        if code is None:
            H.count("skipped:" + text)
            continue
        H.count("cases")
        t = time.time()
        if sys.flags.bytes_warning:
            relaxed = H.mixes_str_and_bytes_in_a_set(code)
            H.bytes_strict(not relaxed)
            if relaxed:
                H.count("bytes_warning_relaxed_cases")
        yield case, id_, code, text
        dt = time.time() - t
        if dt > 1.0:
            slow.append((round(dt, 1), id_))
    slow.sort(reverse=True)
    if slow:
        H.emit({"t": "slow_cases", "interp": H.PYTAG, "cases": slow[:5]})
