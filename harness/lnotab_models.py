# Ports of CPython's line-table ASSEMBLERS (used only as workload generators, never as oracles):
#   lnotab_37 / lnotab_39  - Python/compile.c assemble_lnotab of 3.7/3.8 and of 3.9
#   peephole_fixup         - Python/peephole.c "Fixup lnotab" (3.7-3.9): NOP removal remaps entry addresses
#   linetable_310          - Python/compile.c assemble_line_range / assemble_lnotab of 3.10
# Stdlib only, 3.7+.
from __future__ import print_function


def _emit_lnotab(out, d_bytecode, d_lineno):
    """Body of assemble_lnotab after the early-return tests (identical in 3.7, 3.8, 3.9)."""
    if d_bytecode > 255:
        ncodes = d_bytecode // 255
        for _ in range(ncodes):
            out.append(255)
            out.append(0)
        d_bytecode -= ncodes * 255
    if d_lineno < -128 or 127 < d_lineno:
        if d_lineno < 0:
            k = -128
            ncodes = (-d_lineno) // 128
        else:
            k = 127
            ncodes = d_lineno // 127
        d_lineno -= ncodes * k
        out.append(d_bytecode)
        out.append(k & 255)
        d_bytecode = 0
        for _ in range(1, ncodes):
            out.append(0)
            out.append(k & 255)
    out.append(d_bytecode)
    out.append(d_lineno & 255)


def lnotab_37(instrs, firstlineno):
    """instrs: [(size_units, i_lineno)] with i_lineno 0 = 'not set on this instruction' (3.7 / 3.8)."""
    out = []
    a_offset = 0
    a_lineno = firstlineno
    a_lineno_off = 0
    for size, lineno in instrs:
        if lineno:
            d_bytecode = (a_offset - a_lineno_off) * 2
            d_lineno = lineno - a_lineno
            if not (d_bytecode == 0 and d_lineno == 0):
                _emit_lnotab(out, d_bytecode, d_lineno)
                a_lineno = lineno
                a_lineno_off = a_offset
        a_offset += size
    return bytes(bytearray(out))


def lnotab_39(instrs, firstlineno):
    """instrs: [(size_units, i_lineno)]; every instruction carries its line (3.9)."""
    out = []
    a_offset = 0
    a_lineno = firstlineno
    a_lineno_off = 0
    for size, lineno in instrs:
        d_lineno = lineno - a_lineno
        if d_lineno != 0:
            d_bytecode = (a_offset - a_lineno_off) * 2
            _emit_lnotab(out, d_bytecode, d_lineno)
            a_lineno = lineno
            a_lineno_off = a_offset
        a_offset += size
    return bytes(bytearray(out))


def peephole_fixup(lnotab, removed, n_units):
    """removed: set of code-unit indices that the peephole pass turned into NOPs and deleted."""
    blocks = []
    nops = 0
    for i in range(n_units + 1):
        blocks.append(i - nops)
        if i in removed:
            nops += 1
    out = bytearray(lnotab)
    cum = 0
    last = 0
    for i in range(0, len(out), 2):
        cum += out[i]
        idx = cum // 2
        if idx >= len(blocks):
            idx = len(blocks) - 1
        new = blocks[idx] * 2
        delta = new - last
        if not (0 <= delta <= 255):
            return None
        out[i] = delta
        last = new
    return bytes(out)


def linetable_310(instrs, firstlineno):
    """instrs: [(size_units, line or None)] -> co_linetable bytes (3.10)."""
    out = []
    st = {"offset": 0, "lineno": firstlineno, "prev": firstlineno, "start": 0}

    def pair(b, l):
        out.append(b)
        out.append(l & 255)

    def line_range():
        bdelta = (st["offset"] - st["start"]) * 2
        if bdelta == 0:
            return
        if st["lineno"] < 0:
            ldelta = -128
        else:
            ldelta = st["lineno"] - st["prev"]
            st["prev"] = st["lineno"]
            while ldelta > 127:
                pair(0, 127)
                ldelta -= 127
            while ldelta < -127:
                pair(0, -127)
                ldelta += 127
        while bdelta > 254:
            pair(254, ldelta)
            ldelta = -128 if st["lineno"] < 0 else 0
            bdelta -= 254
        pair(bdelta, ldelta)
        st["start"] = st["offset"]

    for size, line in instrs:
        lineno = -1 if line is None else line
        if lineno != st["lineno"]:
            line_range()
            st["lineno"] = lineno
        st["offset"] += size
    line_range()
    return bytes(bytearray(out))


def table_for_lines(instrs, firstlineno, is310):
    """A valid table for per-instruction lines (used by the re-assembler of W11)."""
    if is310:
        return linetable_310(instrs, firstlineno)
    # <=3.9 cannot express 'no line': such instructions inherit the previous line
    fixed = []
    prev = firstlineno
    for size, line in instrs:
        if line is None:
            line = prev
        prev = line
        fixed.append((size, line))
    return lnotab_39(fixed, firstlineno)
