# Re-entrant and concurrent use of the library: the same calls as in the sequential run, but (1) started from inside
# another call of the library (a trace hook that fires at a chosen event inside a library frame and calls the API itself -
# what a profiler, a signal handler, a gc callback or a __del__ can do) and (2) from several threads at once with a tiny
# switch interval.  Results are compared with the results of the sequential run (which the property's own oracle judged).
# A pure function of its argument gives the same result however its executions are interleaved; any difference means that
# two executions shared working state.
from __future__ import print_function

import os
import sys
import threading

import hcommon as H


def _libdir():
    return os.path.dirname(os.path.abspath(H.lib().__file__)) + os.sep


def count_events(fn, arg, libdir):
    """Number of call/line events inside library frames during fn(arg)."""
    n = [0]

    def local(frame, event, a):
        if event == "line":
            n[0] += 1
        return local

    def tracer(frame, event, a):
        if event == "call" and frame.f_code.co_filename.startswith(libdir):
            n[0] += 1
            return local
        return None
    old = sys.gettrace()
    sys.settrace(tracer)
    try:
        fn(arg)
    except Exception:
        pass
    finally:
        sys.settrace(old)
    return n[0]


def run_reentrant(fn, outer, inner, k, libdir):
    """fn(outer) with fn(inner) started at the k-th call/line event inside a library frame.
    Returns (outer outcome, inner outcome); an outcome is ("ok", value) or ("raise", type name)."""
    n = [0]
    fired = [False]
    inner_out = [None]

    def fire():
        fired[0] = True
        sys.settrace(None)
        try:
            inner_out[0] = ("ok", fn(inner))
        except Exception as e:
            inner_out[0] = ("raise", type(e).__name__)

    def local(frame, event, a):
        if fired[0]:
            return None
        if event == "line":
            n[0] += 1
            if n[0] == k:
                fire()
                return None
        return local

    def tracer(frame, event, a):
        if fired[0]:
            return None
        if event == "call" and frame.f_code.co_filename.startswith(libdir):
            n[0] += 1
            if n[0] == k:
                fire()
                return None
            return local
        return None
    old = sys.gettrace()
    sys.settrace(tracer)
    try:
        try:
            out = ("ok", fn(outer))
        except Exception as e:
            out = ("raise", type(e).__name__)
    finally:
        sys.settrace(old)
    return out, inner_out[0]


def stress(prop, items, fn, same, rng, n_reentrant=6, thread_rounds=3, nthreads=3, label="from_code"):
    """items: [(case, arg)] (a handful of small inputs).  fn: the API call under test (pure, deterministic).
    same(a, b) -> None or a description of the difference between two results."""
    if len(items) < 2:
        return
    libdir = _libdir()
    H.MONITORS_OFF[0] = True
    try:
        _stress(prop, items, fn, same, rng, n_reentrant, thread_rounds, nthreads, label, libdir)
    finally:
        H.MONITORS_OFF[0] = False


def _stress(prop, items, fn, same, rng, n_reentrant, thread_rounds, nthreads, label, libdir):
    base = []
    for case, arg in items:
        try:
            base.append(("ok", fn(arg)))
        except Exception as e:
            base.append(("raise", type(e).__name__))

    def compare(i, got, how):
        want = base[i]
        H.count("checks:%s.stress" % prop)
        if want[0] != got[0] or (want[0] == "raise" and want[1] != got[1]):
            return "%s: sequential call %s, %s call %s" % (label, want[0] if want[0] == "ok" else want, how, got[0] if got[0] == "ok" else got)
        if want[0] == "ok":
            d = same(want[1], got[1])
            if d:
                return "%s: result of the %s call differs from the sequential result: %s" % (label, how, H.short(d, 400))
        return None

    # (1) re-entrant
    for i, (case, arg) in enumerate(items):
        total = count_events(fn, arg, libdir)
        if total < 2:
            continue
        j = (i + 1 + rng.randrange(len(items) - 1)) % len(items)
        ks = sorted(set([1, total] + [rng.randrange(1, total + 1) for _ in range(n_reentrant)]))
        for k in ks:
            out, inner = run_reentrant(fn, arg, items[j][1], k, libdir)
            H.count("reentrant_runs")
            if inner is None:
                H.count("reentrant_hook_not_reached")
                continue
            for idx, got, how in ((i, out, "interrupted (another call ran at event %d of %d)" % (k, total)), (j, inner, "nested (started inside another call)")):
                d = compare(idx, got, how)
                if d:
                    H.violation(prop, "stress", "re-entrant use changes the result", dict(items[idx][0], stress="reentrant", partner=items[j if idx == i else i][0].get("id")), d)
                    break
    # (2) threads
    old_si = sys.getswitchinterval()
    sys.setswitchinterval(1e-6)
    problems = []
    lock = threading.Lock()
    start = threading.Barrier(nthreads)

    def worker(t):
        order = list(range(len(items)))
        r = H.rng_for(t, "stress-thread")
        start.wait()
        for _ in range(thread_rounds):
            r.shuffle(order)
            for i in order:
                try:
                    got = ("ok", fn(items[i][1]))
                except Exception as e:
                    got = ("raise", type(e).__name__)
                d = compare(i, got, "concurrent (thread %d of %d)" % (t, nthreads))
                if d:
                    with lock:
                        problems.append((i, d))
    threads = [threading.Thread(target=worker, args=(t,)) for t in range(nthreads)]
    try:
        for t in threads:
            t.daemon = True
            t.start()
        for t in threads:
            t.join(300)
    finally:
        sys.setswitchinterval(old_si)
    H.count("thread_runs", nthreads * thread_rounds * len(items))
    seen = set()
    for i, d in problems:
        if i in seen:
            continue
        seen.add(i)
        H.violation(prop, "stress", "concurrent use changes the result", dict(items[i][0], stress="threads"), d)


# ---- resource-starved calls ---------------------------------------------------------------------------------------------
# The same call with little interpreter stack left (the library called from deep inside an application).  Running out of
# stack is an accepted outcome (RecursionError); a *returned* result has to be the result of the unstarved call.

def _depth():
    f = sys._getframe()
    n = 0
    while f is not None:
        n += 1
        f = f.f_back
    return n


def _at_remaining(rem, thunk):
    n = sys.getrecursionlimit() - _depth() - rem

    def rec(k):
        if k <= 0:
            return thunk()
        return rec(k - 1)
    return rec(max(0, n))


def nested_twin_code(depth, pair):
    """Module code loading two tuple constants nested `depth` levels deep that differ only in a look-alike leaf."""
    import gen_const
    a, b = pair
    for i in range(depth):
        a, b = (a, i), (b, i)
    base = gen_const._base("module")
    return gen_const._replace_consts(base, {987654321: a, 987654322: b, 987654323: a})


def starved(prop, items, fn, same, label, rems=None):
    """items: [(case, arg)]; fn(arg) -> result.  Sweeps the number of frames left when the call starts."""
    if rems is None:
        rems = list(range(60, 200, 4)) + list(range(200, 700, 25))
    H.MONITORS_OFF[0] = True
    try:
        for case, arg in items:
            try:
                base = fn(arg)
            except Exception:
                H.count("starved_baseline_raises")
                continue
            for rem in rems:
                H.count("checks:%s.starved" % prop)
                try:
                    got = _at_remaining(rem, lambda: fn(arg))
                except RecursionError:
                    H.count("starved_recursion_error")
                    continue
                except MemoryError:
                    H.count("starved_memory_error")
                    continue
                except Exception as e:
                    H.count("starved_other_exception:" + type(e).__name__)
                    continue
                H.count("starved_returned")
                d = same(base, got)
                if d:
                    H.violation(prop, "stress", "a call with little stack left returns a different result", dict(case, stress="starved", frames_left=rem),
                                "%s with %d frames left returned a result that differs from the unstarved call: %s" % (label, rem, H.short(d, 400)))
                    break
    finally:
        H.MONITORS_OFF[0] = False
