# Re-entrant and concurrent use of the library: the same calls as in the sequential run, but (1) started from inside
# another call of the library (a trace hook that fires at a chosen event inside a library frame and calls the API itself -
# what a profiler, a signal handler, a gc callback or a __del__ can do) and (2) from several threads at once with a tiny
# switch interval.  Results are compared with the results of the sequential run (which the property's own oracle judged).
# A pure function of its argument gives the same result however its executions are interleaved; any difference means that
# two executions shared working state.
from __future__ import print_function

import os
import sys
import threading

import hcommon as H


def _libdir():
    return os.path.dirname(os.path.abspath(H.lib().__file__)) + os.sep


def count_events(fn, arg, libdir):
    """Number of call/line events inside library frames during fn(arg)."""
    n = [0]

    def local(frame, event, a):
        if event == "line":
            n[0] += 1
        return local

    def tracer(frame, event, a):
        if event == "call" and frame.f_code.co_filename.startswith(libdir):
            n[0] += 1
            return local
        return None
    old = sys.gettrace()
    sys.settrace(tracer)
    try:
        fn(arg)
    except Exception:
        pass
    finally:
        sys.settrace(old)
    return n[0]


def run_reentrant(fn, outer, inner, k, libdir):
    """fn(outer) with fn(inner) started at the k-th call/line event inside a library frame.
    Returns (outer outcome, inner outcome); an outcome is ("ok", value) or ("raise", type name)."""
    n = [0]
    fired = [False]
    inner_out = [None]

    def fire():
        fired[0] = True
        sys.settrace(None)
        try:
            inner_out[0] = ("ok", fn(inner))
        except Exception as e:
            inner_out[0] = ("raise", type(e).__name__)

    def local(frame, event, a):
        if fired[0]:
            return None
        if event == "line":
            n[0] += 1
            if n[0] == k:
                fire()
                return None
        return local

    def tracer(frame, event, a):
        if fired[0]:
            return None
        if event == "call" and frame.f_code.co_filename.startswith(libdir):
            n[0] += 1
            if n[0] == k:
                fire()
                return None
            return local
        return None
    old = sys.gettrace()
    sys.settrace(tracer)
    try:
        try:
            out = ("ok", fn(outer))
        except Exception as e:
            out = ("raise", type(e).__name__)
    finally:
        sys.settrace(old)
    return out, inner_out[0]


def stress(prop, items, fn, same, rng, n_reentrant=6, thread_rounds=3, nthreads=3, label="from_code"):
    """items: [(case, arg)] (a handful of small inputs).  fn: the API call under test (pure, deterministic).
    same(a, b) -> None or a description of the difference between two results."""
    if len(items) < 2:
        return
    libdir = _libdir()
    H.MONITORS_OFF[0] = True
    try:
        _stress(prop, items, fn, same, rng, n_reentrant, thread_rounds, nthreads, label, libdir)
    finally:
        H.MONITORS_OFF[0] = False


def _stress(prop, items, fn, same, rng, n_reentrant, thread_rounds, nthreads, label, libdir):
    base = []
    for case, arg in items:
        try:
            base.append(("ok", fn(arg)))
        except Exception as e:
            base.append(("raise", type(e).__name__))

    def compare(i, got, how):
        want = base[i]
        H.count("checks:%s.stress" % prop)
        if want[0] != got[0] or (want[0] == "raise" and want[1] != got[1]):
            return "%s: sequential call %s, %s call %s" % (label, want[0] if want[0] == "ok" else want, how, got[0] if got[0] == "ok" else got)
        if want[0] == "ok":
            d = same(want[1], got[1])
            if d:
                return "%s: result of the %s call differs from the sequential result: %s" % (label, how, H.short(d, 400))
        return None

    # (1) re-entrant
    for i, (case, arg) in enumerate(items):
        total = count_events(fn, arg, libdir)
        if total < 2:
            continue
        j = (i + 1 + rng.randrange(len(items) - 1)) % len(items)
        ks = sorted(set([1, total] + [rng.randrange(1, total + 1) for _ in range(n_reentrant)]))
        for k in ks:
            out, inner = run_reentrant(fn, arg, items[j][1], k, libdir)
            H.count("reentrant_runs")
            if inner is None:
                H.count("reentrant_hook_not_reached")
                continue
            for idx, got, how in ((i, out, "interrupted (another call ran at event %d of %d)" % (k, total)), (j, inner, "nested (started inside another call)")):
                d = compare(idx, got, how)
                if d:
                    other = items[j if idx == i else i][0]
                    H.violation(prop, "stress", "re-entrant use changes the result", dict(items[idx][0], stress="reentrant", partner=other.get("id"), partner_case=other), d)
                    break
    # (2) threads
    old_si = sys.getswitchinterval()
    sys.setswitchinterval(1e-6)
    problems = []
    lock = threading.Lock()
    start = threading.Barrier(nthreads)

    def worker(t):
        order = list(range(len(items)))
        r = H.rng_for(t, "stress-thread")
        start.wait()
        for _ in range(thread_rounds):
            r.shuffle(order)
            for i in order:
                try:
                    got = ("ok", fn(items[i][1]))
                except Exception as e:
                    got = ("raise", type(e).__name__)
                d = compare(i, got, "concurrent (thread %d of %d)" % (t, nthreads))
                if d:
                    with lock:
                        problems.append((i, d))
    threads = [threading.Thread(target=worker, args=(t,)) for t in range(nthreads)]
    try:
        for t in threads:
            t.daemon = True
            t.start()
        for t in threads:
            t.join(300)
    finally:
        sys.setswitchinterval(old_si)
    H.count("thread_runs", nthreads * thread_rounds * len(items))
    seen = set()
    for i, d in problems:
        if i in seen:
            continue
        seen.add(i)
        H.violation(prop, "stress", "concurrent use changes the result", dict(items[i][0], stress="threads", partner_case=items[(i + 1) % len(items)][0]), d)


# ---- resource-starved calls ---------------------------------------------------------------------------------------------
# The same call with little interpreter stack left (the library called from deep inside an application).  Running out of
# stack is an accepted outcome (RecursionError); a *returned* result has to be the result of the unstarved call.

def _depth():
    f = sys._getframe()
    n = 0
    while f is not None:
        n += 1
        f = f.f_back
    return n


def _at_remaining(rem, thunk):
    n = sys.getrecursionlimit() - _depth() - rem

    def rec(k):
        if k <= 0:
            return thunk()
        return rec(k - 1)
    return rec(max(0, n))


def nested_twin_code(depth, pair):
    """Module code loading two tuple constants nested `depth` levels deep that differ only in a look-alike leaf."""
    import gen_const
    a, b = pair
    for i in range(depth):
        a, b = (a, i), (b, i)
    base = gen_const._base("module")
    return gen_const._replace_consts(base, {987654321: a, 987654322: b, 987654323: a})


def starved(prop, items, fn, same, label, rems=None):
    """items: [(case, arg)]; fn(arg) -> result.  Sweeps the number of frames left when the call starts."""
    if rems is None:
        rems = list(range(60, 200, 4)) + list(range(200, 700, 25))
    H.MONITORS_OFF[0] = True
    try:
        for case, arg in items:
            try:
                base = fn(arg)
            except Exception:
                H.count("starved_baseline_raises")
                continue
            for rem in rems:
                H.count("checks:%s.starved" % prop)
                try:
                    got = _at_remaining(rem, lambda: fn(arg))
                except RecursionError:
                    H.count("starved_recursion_error")
                    continue
                except MemoryError:
                    H.count("starved_memory_error")
                    continue
                except Exception as e:
                    H.count("starved_other_exception:" + type(e).__name__)
                    continue
                H.count("starved_returned")
                d = same(base, got)
                if d:
                    H.violation(prop, "stress", "a call with little stack left returns a different result", dict(case, stress="starved", frames_left=rem),
                                "%s with %d frames left returned a result that differs from the unstarved call: %s" % (label, rem, H.short(d, 400)))
                    break
    finally:
        H.MONITORS_OFF[0] = False


# ---- fault storm -------------------------------------------------------------------------------------------------------
# Failure atomicity: a burst of calls that the library rejects (each in a different place: before, inside and after the
# recursion into nested code objects / constants), then the shard's ordinary cases run in the same process and thread.
# A call that raises must leave nothing behind - no counter, depth, flag, default-argument object or interpreter limit - that
# changes what later calls on good inputs do; the shard's own oracles judge those later calls.

def fault_storm(seed=0):
    import json
    import types
    import gen_const
    cdm = H.lib()
    CodeData = cdm.CodeData
    rng = H.rng_for(seed, "storm")
    n = {"from_code": 0, "to_code": 0, "from_json": 0, "recursion": 0, "unexpectedly_accepted": 0}

    def attempt(kind, fn, *a):
        try:
            fn(*a)
            n["unexpectedly_accepted"] += 1
        except RecursionError:
            n["recursion"] += 1
        except Exception:
            n[kind] += 1

    src = ("def outer(a, b=1):\n    'doc'\n    def inner(x):\n        return (lambda y: (x, y, ((1, 2.0), (True, (None, ...)))))\n"
           "    return inner\nclass K:\n    def m(self): return [i for i in self]\n")
    good = compile(src, "<storm>", "exec", dont_inherit=True)
    try:
        CodeData.from_code(good).to_code()
    except Exception:
        H.count("storm_skipped_library_rejects_the_good_program")
        return        # the shard's own oracles will say why
    outer = [c for c in good.co_consts if isinstance(c, types.CodeType)][0]
    inner = [c for c in outer.co_consts if isinstance(c, types.CodeType)][0]
    # (a) rejected inside the conversion of a nested code object (unknown flag bit two levels down)
    bad_inner = gen_const.rebuild(inner, co_flags=inner.co_flags | 0x8000000)
    bad_outer = gen_const.rebuild(outer, co_consts=tuple(bad_inner if c is inner else c for c in outer.co_consts))
    bad_nested = gen_const.rebuild(good, co_consts=tuple(bad_outer if c is outer else c for c in good.co_consts))
    # (b) rejected at the top, before any recursion (co_nlocals disagrees with co_varnames; unknown flag on the module itself)
    try:
        bad_top = gen_const.rebuild(outer, co_nlocals=outer.co_nlocals + 3)
    except Exception:
        bad_top = bad_outer
    bad_flag_top = gen_const.rebuild(good, co_flags=good.co_flags | 0x4000000)
    for i in range(1100):
        attempt("from_code", CodeData.from_code, bad_nested)
        attempt("from_code", CodeData.from_code, bad_top)
        if i % 4 == 0:
            attempt("from_code", CodeData.from_code, bad_flag_top)
    # (a') hand-assembled bytecode whose jumps land inside an instruction (behind an EXTENDED_ARG prefix) or past the end
    import dis
    EXT, LC, JA, RV, NOP = dis.opmap["EXTENDED_ARG"], dis.opmap["LOAD_CONST"], dis.opmap["JUMP_ABSOLUTE"], dis.opmap["RETURN_VALUE"], dis.opmap["NOP"]
    unit = 2 if H.PY >= (3, 10) else 1
    for pad in range(0, 12):
        body = [NOP, 0] * pad + [EXT, 0, LC, 0]
        inside = (len(body) - 2) // unit          # the LOAD_CONST behind its prefix
        for target in (inside, (len(body) + 40) // unit):
            bc = bytes(bytearray(body + [JA, target % 256, LC, 0, RV, 0]))
            try:
                odd = gen_const.rebuild(good, co_code=bc)
            except Exception:
                continue
            attempt("from_code", CodeData.from_code, odd)
    # (c) documents and data the loader / encoder rejects
    def good_call(when):
        try:
            cd_ = CodeData.from_code(good)
            if H.strict_diff(good, cd_.to_code()):
                raise AssertionError("round trip of a valid program differs")
            CodeData.from_json_data(json.loads(json.dumps(cd_.to_json_data()))).normalize().to_code()
            return cd_
        except Exception as e:
            H.violation(H.PROP or "?", "stress", "a valid call fails after a burst of rejected calls", {"k": "storm", "id": "fault-storm"},
                        "%s: from_code / to_code / JSON / normalize of a small valid program raised %s: %s" % (when, type(e).__name__, H.short(e, 300)))
            return None
    cd = good_call("after %d rejected from_code calls" % n["from_code"])
    if cd is None:
        return
    doc_text = json.dumps(cd.to_json_data())

    def mutate(doc, how):
        """Returns a damaged copy of the document."""
        stack = [doc]
        sites = []
        while stack:
            d = stack.pop()
            if isinstance(d, dict):
                sites.append(d)
                stack.extend(d.values())
            elif isinstance(d, list):
                stack.extend(d)
        if how == "deep":
            t = 1
            for _ in range(260):
                t = [t] if _ % 3 else {"frozenset": [t]}        # tuples are JSON lists, frozensets tagged objects
            consts = [d for d in sites if "constant" in d]
            (consts[rng.randrange(len(consts))] if consts else doc)["constant"] = [[2, t], 3]
        elif how == "int":
            consts = [d for d in sites if "constant" in d]
            bad = {"int": rng.choice(["12three", "007", "", "0x", "1e5", "1_", "--1", " 1 2"])}
            (consts[rng.randrange(len(consts))] if consts else doc)["constant"] = rng.choice([bad, [1, [bad]], {"frozenset": [[bad]]}, [[[[bad]]]]])
        elif how == "name":
            ins = [d for d in sites if "name" in d and "arg" in d or ("name" in d and "line_number" in d)]
            if ins:
                ins[rng.randrange(len(ins))]["name"] = rng.choice(["GEN_START", "<7>", "NOT_AN_OPCODE", ""])
        elif how == "drop":
            d = sites[rng.randrange(len(sites))]
            if d:
                del d[rng.choice(sorted(d))]
        elif how == "type":
            d = sites[rng.randrange(len(sites))]
            if d:
                d[rng.choice(sorted(d))] = rng.choice([None, 3.5, "x", [], {"unknown": 1}, [[1]], {"frozenset": 5}, {"complex": 1}, {"float": "fast"},
                                                       {"bytes": "%%%"}, {"string": "no quotes"}, [[[{"complex": {"real": 1}}]]]])
        return doc
    for i in range(360):
        how = ["deep", "int", "name", "drop", "type", "int", "deep", "type"][i % 8]
        doc = mutate(json.loads(doc_text), how)

        def load_and_encode(d):
            x = CodeData.from_json_data(d)
            x.to_code()
            x.normalize().to_code()
            raise ValueError("accepted")      # a damaged document that still loads and encodes: counted as a failed-on-purpose call
        attempt("from_json" if how != "name" else "to_code", load_and_encode, doc)
    # (d) RecursionError in the middle of nested conversions
    deep = "x = 0\n"
    for d in range(90):
        deep = "def f%d():\n" % d + "".join("    " + l + "\n" for l in deep.splitlines())
    try:
        deep_code = compile(deep, "<deep>", "exec", dont_inherit=True)
    except (RecursionError, MemoryError, SyntaxError, IndentationError):
        deep_code = None
    if deep_code is not None:
        old = sys.getrecursionlimit()
        H.MONITORS_OFF[0] = True      # hooks that run out of stack themselves would be faults of the harness
        try:
            sys.setrecursionlimit(180)
            for _ in range(12):
                attempt("from_code", CodeData.from_code, deep_code)
        finally:
            sys.setrecursionlimit(old)
            H.MONITORS_OFF[0] = False
    good_call("after the whole storm (%d rejected calls)" % sum(n.values()))
    for k, v in n.items():
        H.count("storm:" + k, v)
    H.count("fault_storms")
