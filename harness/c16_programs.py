# Extra programs for the CLI matrix (C16): text-level hazards between the command line and compile():
# whitespace-only lines inside strings, tabs, trailing blanks, continuation lines, non-ASCII text, form feeds.
TEXT_HAZARDS = [
    'T = """first\n    \nlast"""\n',
    'def f():\n    """doc\n\t\n    end"""\n    return f.__doc__\n',
    'x = 1  \n\n\ny = """\n \n"""\n   \n',
    "s = 'a\\\n    b'\nt = (1,\n     2)\n",
    "\u00e9 = '\u00fc\u4e2d'\nprint(\u00e9)\n",
    "if 1:\n\tx = '\t'\n\ty = 2\n",
    "x = 1\n\x0cy = 2\n",
    "# comment only\n",
    "  \n\nx = 1\n",
    "x = '''\n\n\n'''\n",
    "def f():\n    return '''\n  \n\t\n'''\n",
    "x = ' leading and trailing '\ny = '  '\n",
    "class A:\n    '''\n    \n    indented doc\n      \n    '''\n",
    "x = 'tab\there'\n",
    "x = 1 # trailing comment   \n",
    "\n\n\nx = 1\n\n\n",
]
