# Extra programs for the CLI matrix (C16): text-level hazards between the command line and compile():
# whitespace-only lines inside strings, tabs, trailing blanks, continuation lines, non-ASCII text, form feeds.
TEXT_HAZARDS = [
    'T = """first\n    \nlast"""\n',
    'def f():\n    """doc\n\t\n    end"""\n    return f.__doc__\n',
    'x = 1  \n\n\ny = """\n \n"""\n   \n',
    "s = 'a\\\n    b'\nt = (1,\n     2)\n",
    "\u00e9 = '\u00fc\u4e2d'\nprint(\u00e9)\n",
    "if 1:\n\tx = '\t'\n\ty = 2\n",
    "x = 1\n\x0cy = 2\n",
    "# comment only\n",
    "  \n\nx = 1\n",
    "x = '''\n\n\n'''\n",
    "def f():\n    return '''\n  \n\t\n'''\n",
    "x = ' leading and trailing '\ny = '  '\n",
    "class A:\n    '''\n    \n    indented doc\n      \n    '''\n",
    "x = 'tab\there'\n",
    "x = 1 # trailing comment   \n",
    "\n\n\nx = 1\n\n\n",
    # constants whose JSON form needs the special encodings (non-finite floats inside complex numbers, huge ints, bytes)
    "x = [1e999j, -1e999j, 1e999j * 0, 2 + 1e999j, 1e999, -(1e999 - 1e999), 2**70, -0.0]\n",
    "def f(v=(1e999j, 2**70, b'\\xff', -0.0)):\n    return v in {1e999j, 0j, ...}\n",
    # programs whose text starts with a character that command-line parsers give a meaning to
    "@print\ndef f():\n    return 1\n",
    "@staticmethod\nclass A:\n    x = 1\n",
    "+1\nx = 2\n",
    "~x\n",
    "#!shebang\nx = 1\n",
    "'''doc'''\n",
]

# relative file names (the command runs in the directory that holds them)
ODD_FILE_NAMES = ["@handlers.py", "with space.py", "\u00fcn\u00ef.py", "a=b.py", "noext", "%41.py", "~tilde.py", "+plus.py"]

# Program files as raw bytes: everything `python file.py` accepts is a valid program for the CLI's file source.
RAW_FILES = [
    b"\xef\xbb\xbfx = 1\n",                                             # UTF-8 byte order mark
    b"# -*- coding: latin-1 -*-\nx = '\xe9'\n",                          # PEP 263 cookie, non-UTF-8 bytes
    b"x = 1\r\ny = 2\r\n",                                              # CRLF
    b"#!/usr/bin/python\n# vim: set fileencoding=utf-8 :\ns = '\xc3\xa9'\n",
    b"\xef\xbb\xbf# coding: utf-8\ndef f():\n    \"doc \xe2\x82\xac\"\n",
    b"x = 1\ry = 2\r",                                                   # old Mac line ends
    b"# coding: cp1252\nx = '\x80'\n",
    b"x = 1",                                                             # no final newline
]
