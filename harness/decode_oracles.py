# Oracles over one (code object, decoded CodeData) pair, built only on CPython's own readers
# (dis, PyCode_Addr2Line, co_lines).  Stdlib only, 3.7+.
from __future__ import print_function

import dis
from opcode import HAVE_ARGUMENT

import hcommon as H

HASJABS = set(dis.hasjabs)
HASJREL = set(dis.hasjrel)
HASNAME = set(dis.hasname)
HASLOCAL = set(dis.haslocal)
HASFREE = set(dis.hasfree)
HASCONST = set(dis.hasconst)
JUMPS = HASJABS | HASJREL


def wrap_oparg(arg):
    """CPython keeps oparg in a C int: values above INT_MAX wrap negative (bpo-46724)."""
    if arg is not None and arg > 0x7FFFFFFF:
        return arg - (1 << 32)
    return arg


def jump_target(f):
    """Byte offset CPython jumps to for folded instruction f (dis semantics + int wrap)."""
    arg = wrap_oparg(f["arg"])
    if arg == f["arg"]:
        return f["argval"]
    mult = 2 if H.IS310 else 1
    if f["opcode"] in HASJABS:
        return arg * mult
    return f["offset"] + 2 + arg * mult


def flatten(cd):
    return [ins for block in cd.blocks for ins in block]


def const_matches(decoded, original, CodeData):
    if isinstance(original, H.CodeType):
        return isinstance(decoded, CodeData) and decoded.name == original.co_name and \
            decoded.first_line_number == original.co_firstlineno and decoded.filename == original.co_filename
    if decoded is original:
        return True
    return type(decoded) is type(original) and H.const_fp(decoded) == H.const_fp(original)


def check_instructions(code, cd, codedata_mod, report, colines=None):
    """C02 oracle.  report(clause, detail).  Returns number of instructions compared."""
    CodeData = codedata_mod.CodeData
    folded = H.folded_instructions(code)
    flat = flatten(cd)
    if len(folded) != len(flat):
        report("instruction count", "dis folded=%d decoded=%d" % (len(folded), len(flat)))
        return 0
    # block index -> start offset of its first instruction
    block_start = []
    n = 0
    for block in cd.blocks:
        block_start.append(folded[n]["start"] if n < len(folded) else None)
        n += len(block)
    ncell = len(code.co_cellvars)
    raw = code.co_code
    bad = 0
    lookup = H.line_lookup(code)
    for i, (f, ins) in enumerate(zip(folded, flat)):
        op = f["opcode"]
        arg = ins.arg
        where = "instr %d @%d %s" % (i, f["start"], f["opname"])
        if ins.name != f["opname"]:
            report("opname", "%s decoded %r" % (where, ins.name)); bad += 1
            continue
        if op in JUMPS:
            want_rel = op in HASJREL
            if type(arg).__name__ != "Jump":
                report("operand class", "%s expected Jump got %r" % (where, arg)); bad += 1
            else:
                if arg.relative != want_rel:
                    report("jump kind", "%s relative=%r expected %r" % (where, arg.relative, want_rel)); bad += 1
                tgt = jump_target(f)
                if f["arg"] != wrap_oparg(f["arg"]):
                    H.feature("negative_oparg_jump")
                if not (0 <= arg.target < len(block_start)) or block_start[arg.target] != tgt:
                    report("jump target", "%s block %r starts at %r, CPython jumps to %r" % (
                        where, arg.target, block_start[arg.target] if 0 <= arg.target < len(block_start) else None, tgt))
                    bad += 1
        elif op in HASNAME:
            if type(arg).__name__ != "Name" or arg.name != f["argval"] or type(arg.name) is not type(f["argval"]):
                report("name operand", "%s decoded %r expected %r" % (where, arg, f["argval"])); bad += 1
        elif op in HASLOCAL:
            if type(arg).__name__ != "Varname" or arg.varname != f["argval"]:
                report("local operand", "%s decoded %r expected %r" % (where, arg, f["argval"])); bad += 1
        elif op in HASFREE:
            if f["arg"] < ncell:
                ok = type(arg).__name__ == "Cellvar" and arg.cellvar == code.co_cellvars[f["arg"]]
            else:
                ok = type(arg).__name__ == "Freevar" and arg.freevar == code.co_freevars[f["arg"] - ncell]
            if not ok:
                report("cell/free operand", "%s decoded %r expected %r (ncell=%d)" % (where, arg, f["argval"], ncell))
                bad += 1
        elif op in HASCONST:
            orig = code.co_consts[f["arg"]]
            if type(arg).__name__ != "Constant" or not const_matches(arg.constant, orig, CodeData):
                report("constant operand", "%s decoded %s expected %s" % (where, H.short(arg, 200), H.short(orig, 200)))
                bad += 1
        elif op < HAVE_ARGUMENT:
            if type(arg).__name__ != "NoArg":
                report("operand class", "%s expected NoArg got %r" % (where, arg)); bad += 1
        else:
            if type(arg) is not int or arg != wrap_oparg(f["arg"]):
                report("int operand", "%s decoded %r expected %r" % (where, arg, wrap_oparg(f["arg"]))); bad += 1
        line = lookup(f["start"])
        if colines is not None and colines.get(f["start"], "absent") != line:
            H.count("reference_disagreement:addr2line_vs_co_lines")
        if ins.line_number != line:
            report("line", "%s decoded line %r, CPython assigns %r" % (where, ins.line_number, line)); bad += 1
        if bad > 5:
            break
    return len(folded)


def check_blocks(code, cd, report):
    """C13 oracle: blocks are exactly the jump-target partition (computed from dis only)."""
    folded = H.folded_instructions(code)
    flat_n = sum(len(b) for b in cd.blocks)
    for bi, b in enumerate(cd.blocks):
        if len(b) == 0:
            report("empty block", "block %d is empty" % bi)
            return
    if flat_n != len(folded):
        report("concatenation", "blocks hold %d instructions, dis reads %d" % (flat_n, len(folded)))
        return
    k = 0
    for b in cd.blocks:
        for ins in b:
            if ins.name != folded[k]["opname"]:
                report("order", "instruction %d is %s, dis reads %s" % (k, ins.name, folded[k]["opname"]))
                return
            if type(ins.arg).__name__ == "Jump" and not (isinstance(ins.arg.target, int) and
                                                         0 <= ins.arg.target < len(cd.blocks)):
                report("target range", "instruction %d jumps to block %r of %d" % (k, ins.arg.target, len(cd.blocks)))
            k += 1
    targets = set()
    if folded:
        targets.add(0)
    for f in folded:
        if f["opcode"] in JUMPS:
            targets.add(jump_target(f))
    starts = []
    n = 0
    for b in cd.blocks:
        starts.append(folded[n]["start"])
        n += len(b)
    if sorted(targets) != starts:
        extra = sorted(set(starts) - targets)
        missing = sorted(targets - set(starts))
        report("partition", "block starts %s... ; not jump targets: %s ; jump targets without block: %s" % (
            starts[:8], extra[:8], missing[:8]))
    # every later block is the target of some decoded jump
    used = set([0])
    for b in cd.blocks:
        for ins in b:
            if type(ins.arg).__name__ == "Jump":
                used.add(ins.arg.target)
    untargeted = [i for i in range(len(cd.blocks)) if i not in used]
    if untargeted:
        report("untargeted block", "blocks %s are the target of no jump" % untargeted[:8])


def nontrivial_code(code):
    b = code.co_code
    lt = getattr(code, H.LINE_ATTR)
    return len(lt) >= 4 or any(b[i] in JUMPS for i in range(0, len(b), 2))


def drive(shard, prop, on_decoded, label, depth0_only=False, sample_every=1, variants=0, stress_same=None, stress_n=10):
    """Install a post-condition on _code_data.to_code_data and drive the shard's corpus.

    on_decoded(code, cd, case, report) is called for every successful decode (every nesting
    level unless depth0_only).  Exceptions of the library are not judged here (C01 does).
    """
    import corpus
    cdm = H.import_repo()
    _code_data = H.lib("_code_data")
    state = {"case": None}

    def post(a, k, res, exc, depth, snap):
        if exc is not None:
            if depth == 0:
                H.count("decode_raised")
                if state.get("compiler_output", True):
                    # without decoded data the property cannot hold for this code object
                    H.violation(prop, "to_code_data", "from_code raises on compiler output", state["case"],
                                "%s: %s" % (type(exc).__name__, H.short(exc, 300)))
            return
        if depth0_only and depth != 0:
            return
        code = a[0]
        case = state["case"]

        def report(clause, detail, mech=None):
            H.violation(prop, "to_code_data", clause, case,
                        "code object %r line %d: %s" % (code.co_name, code.co_firstlineno, detail), mech)
        H.count("checks:" + label)
        try:
            on_decoded(code, res, case, report)
        except Exception as e:
            import traceback
            H.count("monitor_errors")
            H.emit({"t": "monitor_error", "prop": prop, "case": case, "trace": traceback.format_exc()[-1500:]})

    mon = H.Monitor(_code_data, "to_code_data", post=post).install()
    stress_items = []
    for case, id_, code, text in corpus.iter_cases(shard):
        state["case"] = corpus.replay_case(case)
        if stress_same is not None and len(stress_items) < stress_n * 3 and 40 <= sum(len(c.co_code) for c, _d in H.iter_code(code)) <= 3000:
            stress_items.append((state["case"], code))
        state["compiler_output"] = case["k"] not in ("w9",)
        try:
            cdm.CodeData.from_code(code)
        except Exception:
            pass
        if variants:
            # W11: hand-made layouts the compiler does not emit but CPython reads unambiguously
            import reassemble
            import sym
            rng = H.rng_for(shard.get("seed", 0), "w11", id_)
            subs = [c for c, _d in H.iter_code(code) if 4 <= len(c.co_code) <= 6000]
            for c in (subs if len(subs) <= variants else rng.sample(subs, variants)):
                try:
                    v, desc = reassemble.variant(c, rng, reassemble.random_ops(rng) | set(["perm_consts"] if rng.random() < 0.5 else ["ext_jumps"]))
                except Exception as e:
                    H.count("variant_builder_error:" + type(e).__name__)
                    continue
                if v is None:
                    continue
                if sym.symbolic(v)["instrs"] != sym.symbolic(c)["instrs"]:
                    H.count("unfaithful_variant_discarded")
                    continue
                H.count("w11_variants")
                for part in desc.split("+"):
                    H.feature("variant:" + part)
                state["case"] = dict(corpus.replay_case(case), w11_variant=desc, w11_code=c.co_name, w11_line=c.co_firstlineno)
                state["compiler_output"] = False      # hand-made layouts: a raise is not judged
                try:
                    cdm.CodeData.from_code(v)
                except Exception as e:
                    H.count("variant_decode_raised:" + type(e).__name__)
        if H._counters.get("cases", 0) <= 3:
            H.sample({"id": id_, "source_head": H.short(text if isinstance(text, str) else text.decode("utf-8", "replace"), 160)})
    if stress_same is not None and len(stress_items) >= 2:
        # the same decodes again, re-entrantly and from several threads: results must not depend on the interleaving
        import stress
        rng = H.rng_for(shard.get("seed", 0), "stress", shard.get("shard", 0))
        if len(stress_items) > stress_n:
            stress_items = rng.sample(stress_items, stress_n)
        stress.stress(prop, stress_items, cdm.CodeData.from_code, stress_same, rng, label="CodeData.from_code")
    return mon


# ---- projections compared by the re-entrant / concurrent stress (stress.py): what each property speaks about -------------

def _nested(cd):
    out = []
    for block in cd.blocks:
        for ins in block:
            c = getattr(ins.arg, "constant", None)
            if hasattr(c, "blocks"):
                out.append(c)
    for a in cd._additional_args:
        c = getattr(a, "constant", None)
        if hasattr(c, "blocks"):
            out.append(c)
    return out


def _diff(pa, pb, what):
    if pa == pb:
        return None
    return "%s: %s vs %s" % (what, H.short(pa, 180), H.short(pb, 180))


def same_whole(a, b):
    try:
        return None if a == b else "decoded data differ (%d vs %d blocks, %d vs %d instructions)" % (
            len(a.blocks), len(b.blocks), len(flatten(a)), len(flatten(b)))
    except Exception as e:
        return "comparison raises %s" % type(e).__name__


def same_shape(a, b):
    """C13: block lengths and jump targets, nested code objects included."""
    def shape(cd):
        return (tuple(len(bl) for bl in cd.blocks),
                tuple(getattr(ins.arg, "target", None) for ins in flatten(cd) if type(ins.arg).__name__ == "Jump"),
                tuple(shape(n) for n in _nested(cd)))
    return _diff(shape(a), shape(b), "block partition")


def same_instructions(a, b):
    """C02: instruction names, resolved operands and lines, nested code objects included."""
    def proj(cd):
        out = []
        for ins in flatten(cd):
            arg = ins.arg
            c = getattr(arg, "constant", None)
            if hasattr(c, "blocks"):
                argp = ("code", proj(c))
            else:
                argp = H.srepr(arg)
            out.append((ins.name, argp, ins.line_number))
        return tuple(out)
    pa, pb = proj(a), proj(b)
    if pa == pb:
        return None
    for i, (x, y) in enumerate(zip(pa, pb)):
        if x != y:
            return "instruction %d: %s vs %s" % (i, H.short(x, 160), H.short(y, 160))
    return "instruction count %d vs %d" % (len(pa), len(pb))


def same_types(a, b):
    """C04: the type (Function with Args / docstring / kind, or None) of every code object."""
    def proj(cd):
        return (repr(cd.type), tuple(proj(n) for n in _nested(cd)))
    return _diff(proj(a), proj(b), "types")
