# Harness-side stand-in so that code_data imports on bare CPython 3.7-3.10.
# The library needs exactly one name from typing_extensions: Literal.
try:
    from typing import Literal  # 3.8+
except ImportError:  # 3.7
    class Literal(object):
        def __class_getitem__(cls, item):
            return cls
