# Minimal JSON-Schema validator for the subset JSON_SCHEMA uses
# (type, properties, required, items, anyOf, enum, $ref, definitions).  Stdlib only, 3.7+.
from __future__ import print_function


def _type_ok(v, t):
    if t == "object":
        return isinstance(v, dict)
    if t == "array":
        return isinstance(v, list)
    if t == "string":
        return isinstance(v, str)
    if t == "integer":
        return (isinstance(v, int) and not isinstance(v, bool)) or (isinstance(v, float) and v == int(v))
    if t == "number":
        return isinstance(v, (int, float)) and not isinstance(v, bool)
    if t == "boolean":
        return isinstance(v, bool)
    if t == "null":
        return v is None
    raise ValueError("unsupported type %r" % (t,))


SUPPORTED = {"type", "properties", "required", "items", "anyOf", "enum", "$ref", "definitions", "description", "default", "title"}


def validate(v, schema, root=None, path="$"):
    """Returns None when valid, else a string describing the first failure."""
    if root is None:
        root = schema
    unknown = set(schema) - SUPPORTED
    if unknown:
        return "%s: schema keyword(s) %s not supported by the mini validator" % (path, sorted(unknown))
    if "$ref" in schema:
        ref = schema["$ref"]
        assert ref.startswith("#/")
        tgt = root
        for part in ref[2:].split("/"):
            tgt = tgt[part]
        r = validate(v, tgt, root, path)
        if r:
            return r
    if "type" in schema:
        t = schema["type"]
        ts = t if isinstance(t, list) else [t]
        if not any(_type_ok(v, x) for x in ts):
            return "%s: %r is not of type %s" % (path, type(v).__name__, t)
    if "enum" in schema and v not in schema["enum"]:
        return "%s: %r not in enum" % (path, v)
    if "anyOf" in schema:
        errs = []
        for sub in schema["anyOf"]:
            r = validate(v, sub, root, path)
            if r is None:
                break
            errs.append(r)
        else:
            return "%s: no anyOf branch matches (%s)" % (path, errs[0][:120])
    if isinstance(v, dict):
        for k in schema.get("required", []):
            if k not in v:
                return "%s: missing required %r" % (path, k)
        for k, sub in schema.get("properties", {}).items():
            if k in v:
                r = validate(v[k], sub, root, path + "." + k)
                if r:
                    return r
    if isinstance(v, list) and "items" in schema:
        for i, x in enumerate(v):
            r = validate(x, schema["items"], root, "%s[%d]" % (path, i))
            if r:
                return r
    return None
