# W3: seeded generator of valid, deterministic, terminating Python programs.
# Output is plain 3.7 syntax plus version-gated extras.  Stdlib only, runs on 3.7+.
from __future__ import print_function

PRELUDE = '''\
class _CM(object):
    def __init__(self, tag, swallow=False):
        self.tag = tag; self.swallow = swallow
    def __enter__(self):
        print("enter", self.tag); return self.tag
    def __exit__(self, et, ev, tb):
        print("exit", self.tag, et.__name__ if et else None); return self.swallow
def _run(coro):
    try:
        while True:
            coro.send(None)
    except StopIteration as e:
        return e.value
class _Aw(object):
    def __init__(self, v): self.v = v
    def __await__(self):
        yield
        return self.v
'''

CONSTS_SIMPLE = ["0", "1", "2", "3", "7", "255", "256", "65535", "65536", "-1", "True", "False",
                 "None", "1.5", "0.0", "-0.0", "1e300", "2**70", "'a'", "b'a'", "''", "b''",
                 "'\\u00e9'", "1j", "-0j", "...", "(1, 2)", "(1.0, True)", "((), (0.0, -0.0))",
                 "1e999", "-1e999", "(1e999 - 1e999)", "'\\ud800'", "(None, ('x', b'y'))",
                 "10**40", "-2**63", "0.1", "'docstringlike'", "1e999j", "-1e999j", "(1e999j * 0)", "(2 + 1e999j)"]


class Gen(object):
    def __init__(self, rng, pyver, size=1.0):
        self.r = rng
        self.v = pyver
        self.size = size
        self.uid = 0
        self.lines = []
        self.noml = 0

    # -- helpers -----------------------------------------------------------
    def fresh(self, p="n"):
        self.uid += 1
        return "%s%d" % (p, self.uid)

    def pick(self, seq):
        return seq[self.r.randrange(len(seq))]

    def chance(self, p):
        return self.r.random() < p

    def emit(self, ind, text):
        self.lines.append("    " * ind + text)

    def blank(self, hostile=False):
        if self.chance(0.12):
            n = self.pick([1, 2, 3, 5, 20, 126, 127, 128, 129, 130, 254, 255, 256, 300]
                          if hostile or self.chance(0.3) else [1, 1, 2, 3])
            self.lines.extend([""] * n)

    # -- expressions ---------------------------------------------------------
    def const(self):
        return self.pick(CONSTS_SIMPLE)

    def int_atom(self, vars_):
        c = self.r.random()
        if c < 0.45 and vars_:
            return self.pick(vars_)
        if c < 0.8:
            return str(self.pick([0, 1, 2, 3, 5, 7, 10, 100, 255, 256, 1000, 65536, -1, -7]))
        if c < 0.9:
            return self.pick(["True", "False"])
        return "len(%s)" % self.pick(["'abc'", "(1, 2, 3)", "b'xy'", "''"])

    def iexpr(self, vars_, depth=0):
        """int-valued expression that cannot raise."""
        if depth > 3 or self.chance(0.3):
            return self.int_atom(vars_)
        c = self.r.randrange(13 if self.noml else 14)
        a = self.iexpr(vars_, depth + 1)
        b = self.iexpr(vars_, depth + 1)
        if c == 0:
            return "(%s + %s)" % (a, b)
        if c == 1:
            return "(%s - %s)" % (a, b)
        if c == 2:
            return "(%s * %s %% 1000003)" % (a, b)
        if c == 3:
            return "(%s // (%s or 1))" % (a, b)
        if c == 4:
            return "(%s %% (%s or 3))" % (a, b)
        if c == 5:
            return "(%s & %s)" % (a, b)
        if c == 6:
            return "(%s | %s)" % (a, b)
        if c == 7:
            return "(-%s)" % a
        if c == 8:
            return "(~%s)" % a
        if c == 9:
            return "(%s if %s else %s)" % (a, self.bexpr(vars_, depth + 1), b)
        if c == 10:
            return "int(%s)" % self.bexpr(vars_, depth + 1)
        if c == 11:
            op = self.pick(["<", "<=", "==", "!=", ">", ">="])
            return "(%s %s %s)" % (a, op, b)
        if c == 12:
            return "(%s ^ (%s << (%s %% 5)))" % (a, b, self.int_atom(vars_))
        # multi-line parenthesised expression: negative line deltas
        return "(%s +\n    %s -\n  %s)" % (a, b, self.int_atom(vars_))

    def bexpr(self, vars_, depth=0):
        if depth > 3 or self.chance(0.3):
            a = self.iexpr(vars_, depth + 1)
            return "%s %s %s" % (a, self.pick(["<", ">", "==", "!=", "<=", ">="]),
                                 self.int_atom(vars_))
        c = self.r.randrange(7)
        a = self.bexpr(vars_, depth + 1)
        b = self.bexpr(vars_, depth + 1)
        if c == 0:
            return "(%s and %s)" % (a, b)
        if c == 1:
            return "(%s or %s)" % (a, b)
        if c == 2:
            return "(not %s)" % a
        if c == 3:
            x = self.int_atom(vars_)
            return "(%s < %s <= %s)" % (self.int_atom(vars_), x, self.int_atom(vars_))
        if c == 4:
            return "(%s in {1, 2, 3, 255})" % self.int_atom(vars_)
        if c == 5:
            return "(%s not in (0, 7, 'a'))" % self.int_atom(vars_)
        return "(%s is not None)" % self.int_atom(vars_)

    def oexpr(self, vars_):
        """printable-object expression (deterministic repr)."""
        c = self.r.randrange(12)
        if c == 0:
            return "[%s for q in range(%d)]" % (self.iexpr(vars_ + ["q"]), self.r.randrange(4))
        if c == 1:
            return "sorted({%s for q in range(%d)})" % (self.iexpr(vars_ + ["q"]), self.r.randrange(4))
        if c == 2:
            return "sorted({q: %s for q in range(%d)}.items())" % (self.iexpr(vars_ + ["q"]),
                                                                    self.r.randrange(4))
        if c == 3:
            return "list(%s for q in range(%d) if %s)" % (self.iexpr(vars_ + ["q"]),
                                                          self.r.randrange(4), self.bexpr(vars_ + ["q"]))
        if c == 4:
            return "(%s, %s)" % (self.const(), self.const())
        if c == 5:
            return "'%%s-%%r' %% (%s, %s)" % (self.iexpr(vars_), self.const())
        if c == 6:
            self.noml += 1
            try:
                return 'f"{%s}:{%s!r:>5}"' % (self.iexpr(vars_), self.int_atom(vars_))
            finally:
                self.noml -= 1
        if c == 7:
            return "[%s, *(1, 2), %s][%s:%s]" % (self.iexpr(vars_), self.const(),
                                                 self.pick(["", "0", "1"]), self.pick(["", "2", "-1"]))
        if c == 8:
            return "(lambda a, b=%s, *c, d=%s, **e: (a, b, c, d, sorted(e)))(%s, z=1)" % (
                self.const(), self.const(), self.iexpr(vars_))
        if c == 9:
            return "[(q, w) for q in range(2) for w in range(q + 1)]"
        if c == 10:
            return "repr(%s)" % self.const()
        return "type(%s).__name__" % self.const()

    # -- statements ----------------------------------------------------------
    def stmt(self, ind, vars_, depth, in_loop=False, in_func=False):
        self.blank()
        c = self.r.randrange(30)
        if depth > 2 and c >= 8:
            c = self.r.randrange(8)
        if c < 4:
            v = self.pick(vars_)
            if self.chance(0.2):
                self.emit(ind, "%s %s= %s" % (v, self.pick(["+", "-", "|", "&", "^"]), self.iexpr(vars_)))
            elif self.chance(0.15):
                self.emit(ind, "%s = 1; %s = %s; print(%s)" % (v, self.pick(vars_), self.iexpr(vars_), v))
            else:
                self.emit(ind, "%s = %s" % (v, self.iexpr(vars_)))
        elif c < 7:
            self.emit(ind, "print(%s)" % self.oexpr(vars_))
        elif c == 7:
            self.emit(ind, "print(%s, %s)" % (self.iexpr(vars_), self.const()))
        elif c < 10:
            self.emit(ind, "if %s:" % self.bexpr(vars_))
            self.block(ind + 1, vars_, depth + 1, in_loop, in_func)
            if self.chance(0.4):
                self.emit(ind, "elif %s:" % self.bexpr(vars_))
                self.block(ind + 1, vars_, depth + 1, in_loop, in_func)
            if self.chance(0.5):
                self.emit(ind, "else:")
                self.block(ind + 1, vars_, depth + 1, in_loop, in_func)
        elif c < 12:
            lv = self.pick(vars_)
            self.emit(ind, "for %s in range(%d):" % (lv, self.r.randrange(4)))
            self.block(ind + 1, vars_, depth + 1, True, in_func)
            if self.chance(0.3):
                self.emit(ind, "else:")
                self.block(ind + 1, vars_, depth + 1, in_loop, in_func)
        elif c == 12:
            cv = self.fresh("w")
            self.emit(ind, "%s = %d" % (cv, self.r.randrange(4)))
            self.emit(ind, "while %s:" % self.pick([cv, "%s > 0" % cv, "not %s < 1" % cv, "1"]))
            self.emit(ind + 1, "%s -= 1" % cv)
            self.emit(ind + 1, "if %s < 0: break" % cv)
            self.block(ind + 1, vars_, depth + 1, True, in_func)
            if self.chance(0.3):
                self.emit(ind, "else:")
                self.block(ind + 1, vars_, depth + 1, in_loop, in_func)
        elif c == 13 and in_loop:
            self.emit(ind, "if %s: %s" % (self.bexpr(vars_), self.pick(["break", "continue"])))
        elif c < 16:
            self.emit(ind, "try:")
            self.block(ind + 1, vars_, depth + 1, in_loop, in_func)
            k = self.r.randrange(3)
            if self.chance(0.5 if k != 2 else 0.1):
                self.emit(ind + 1, self.pick(["raise ValueError(%s)" % self.iexpr(vars_),
                                              "1 // 0", "[][1]", "{}['k']", "int('x')",
                                              "raise KeyError('k') from None", "assert %s, 'm'" % self.bexpr(vars_)]))
            if k == 0:
                self.emit(ind, "except (ValueError, ZeroDivisionError) as e:")
                self.emit(ind + 1, "print('caught', type(e).__name__, e.args)")
                self.emit(ind, "except Exception as e:")
                self.emit(ind + 1, "print('other', type(e).__name__)")
            elif k == 1:
                self.emit(ind, "except Exception:")
                self.block(ind + 1, vars_, depth + 1, in_loop, in_func)
                if self.chance(0.5):
                    self.emit(ind, "else:")
                    self.block(ind + 1, vars_, depth + 1, in_loop, in_func)
            if k == 2 or self.chance(0.4):
                self.emit(ind, "finally:")
                self.block(ind + 1, vars_, depth + 1, False, in_func)
        elif c == 16:
            tag = self.r.randrange(100)
            if self.chance(0.5):
                self.emit(ind, "with _CM(%d, %s) as %s:" % (tag, self.pick(["True", "False"]), self.pick(vars_)))
            else:
                self.emit(ind, "with _CM(%d), _CM(%d, True):" % (tag, tag + 1))
            self.block(ind + 1, vars_, depth + 1, in_loop, in_func)
            if self.chance(0.3):
                self.emit(ind + 1, "raise ValueError('in with')")
        elif c < 20:
            self.funcdef(ind, vars_, depth)
        elif c == 20:
            if self.chance(0.5) and depth == 0:
                self.closure_nest(ind)
            else:
                self.classdef(ind, vars_, depth)
        elif c == 21:
            self.emit(ind, "if 0:")
            self.block(ind + 1, vars_, depth + 1, in_loop, in_func)
            if self.chance(0.5):
                fn = self.fresh("dead")
                self.emit(ind + 1, "def %s(): return %s" % (fn, self.const()))
                self.emit(ind + 1, "%s = lambda: (lambda: 1)" % self.fresh("deadl"))
        elif c == 22:
            self.emit(ind, "while 0:")
            self.emit(ind + 1, "class %s: pass" % self.fresh("DeadC"))
        elif c == 23:
            a, b = self.pick(vars_), self.pick(vars_)
            self.emit(ind, "%s, %s = %s, %s" % (a, b, b, a) if a != b else "%s = %s" % (a, b))
        elif c == 24:
            self.emit(ind, "print(%s(" % self.pick(["max", "min"]))
            for _ in range(self.r.randrange(1, 5)):
                if self.chance(0.3):
                    self.lines.extend([""] * self.pick([1, 2, 126, 127, 128, 129]))
                self.emit(ind + 1, "%s," % self.iexpr(vars_))
            self.emit(ind, "    0))")
        elif c == 25:
            self.emit(ind, "%s = (" % self.fresh("t"))
            for _ in range(self.r.randrange(1, 6)):
                self.emit(ind + 1, "%s," % self.const())
            self.emit(ind, ")")
        elif c == 26 and self.v >= (3, 8):
            self.emit(ind, "if (%s := %s) > 2: print('walrus', %s)" % (
                self.pick(vars_) if not in_func else self.fresh("wl"), self.iexpr(vars_), self.int_atom(vars_)))
        elif c == 27 and self.v >= (3, 10):
            self.emit(ind, "match %s:" % self.iexpr(vars_))
            self.emit(ind + 1, "case 0 | 1: print('m01')")
            self.emit(ind + 1, "case int(q) if q > 5: print('mq', q)")
            self.emit(ind + 1, "case _: print('m_')")
        elif c == 28:
            self.emit(ind, "del %s; %s = %s" % ((self.pick(vars_),) * 2 + (self.iexpr([]),)))
        else:
            self.emit(ind, "print('p', %s)" % self.iexpr(vars_))

    def block(self, ind, vars_, depth, in_loop=False, in_func=False):
        n = 1 + int(self.r.random() * 2.5 * self.size)
        for _ in range(n):
            self.stmt(ind, vars_, depth, in_loop, in_func)

    def signature(self):
        """Returns (param text, call text, names)."""
        names = []
        parts = []
        call = []
        npos = self.r.randrange(3) if self.v >= (3, 8) and self.chance(0.3) else 0
        nreg = self.r.randrange(4)
        for i in range(npos):
            n = self.fresh("po")
            names.append(n)
            parts.append(n if not self.chance(0.3) else "%s=%s" % (n, self.const()))
            call.append(str(self.r.randrange(9)))
        # defaults must be trailing: regenerate so that once a default appears all later have
        seen_default = any("=" in p for p in parts)
        fixed = []
        for p in parts:
            fixed.append(p)
        parts = []
        seen_default = False
        for p in fixed:
            if "=" in p:
                seen_default = True
            elif seen_default:
                p = "%s=0" % p
            parts.append(p)
        if npos:
            parts.append("/")
        for i in range(nreg):
            n = self.fresh("a")
            names.append(n)
            if seen_default or self.chance(0.3):
                seen_default = True
                parts.append("%s=%s" % (n, self.const()))
            else:
                parts.append(n)
            call.append(str(self.r.randrange(9)))
        star = self.chance(0.35)
        nkw = self.r.randrange(3) if self.chance(0.5) else 0
        if star:
            n = self.fresh("va")
            names.append(n)
            parts.append("*" + n)
            if self.chance(0.5):
                call.append("11, 12")
        elif nkw:
            parts.append("*")
        for i in range(nkw):
            n = self.fresh("k")
            names.append(n)
            if self.chance(0.5):
                parts.append("%s=%s" % (n, self.const()))
            else:
                parts.append(n)
            call.append("%s=%d" % (n, self.r.randrange(9)))
        if self.chance(0.3):
            n = self.fresh("kw")
            names.append(n)
            parts.append("**" + n)
            if self.chance(0.5):
                call.append("zz=5")
        return ", ".join(parts), ", ".join(call), names

    def docstring(self, ind, cls=False):
        c = self.r.randrange(8)
        if cls and c == 4:
            c = 0
        if c == 0:
            self.emit(ind, '"""doc %d"""' % self.r.randrange(99))
        elif c == 1:
            self.emit(ind, '"""multi\n    line doc\n    """')
        elif c == 2:
            self.emit(ind, "b'bytes not doc'")
        elif c == 3:
            self.emit(ind, "f'fstring {1} not doc'")
        elif c == 4:
            self.emit(ind, "'doc with surrogate \\udc80'")
        elif c == 5:
            self.emit(ind, "''")

    def funcdef(self, ind, vars_, depth):
        name = self.fresh("f")
        params, call, pnames = self.signature()
        kind = self.r.randrange(10)
        is_async = kind in (7, 8)
        is_gen = kind in (5, 6, 8)
        if self.chance(0.2):
            self.emit(ind, "@_ident")
        self.emit(ind, "%sdef %s(%s):" % ("async " if is_async else "", name, params))
        self.docstring(ind + 1)
        inner = ["l0", "l1"] + [p for p in pnames if not p.startswith(("va", "kw"))][:3]
        self.emit(ind + 1, "l0 = %s; l1 = %s" % (self.iexpr([]), self.iexpr([])))
        # make parameters ints where they may be arbitrary constants
        for p in inner[2:]:
            self.emit(ind + 1, "%s = %s if type(%s) is int else 3" % (p, p, p))
        if self.chance(0.3):
            self.emit(ind + 1, "print(sorted(locals()))")
        closure = self.chance(0.4) and depth < 2
        self.block(ind + 1, inner, depth + 1, False, True)
        if closure:
            iname = self.fresh("inner")
            self.emit(ind + 1, "def %s(%s):" % (iname, self.pick(["", "x=1", "*a", "x=0, *, y=2", "*a, y=1, **k"])))
            if self.chance(0.5):
                self.emit(ind + 2, "nonlocal l0")
                self.emit(ind + 2, "l0 += 1")
            self.emit(ind + 2, "return l0 + l1 + %s" % self.iexpr([]))
            self.emit(ind + 1, "print(%s())" % iname)
            if self.chance(0.3):
                # unused cell: captured by dead inner function
                self.emit(ind + 1, "if 0:")
                self.emit(ind + 2, "def %s(): return l1" % self.fresh("deadinner"))
        if is_gen:
            self.emit(ind + 1, "%s = yield l0" % self.pick(["l1", "_"]))
            if not is_async and self.chance(0.5):
                self.emit(ind + 1, "yield from (l0, l1)")
        if is_async and not is_gen:
            self.emit(ind + 1, "l1 = await _Aw(%s)" % self.iexpr(inner))
        if self.chance(0.3):
            self.emit(ind + 1, "return")
            self.emit(ind + 1, "print('dead after return')")
            if self.chance(0.5):
                self.emit(ind + 1, "def %s(): return 1" % self.fresh("deadfn"))
        elif not (is_async and is_gen):
            self.emit(ind + 1, "return %s" % self.pick(["l0", "(l0, l1)", "None", "l0 if l1 else 'x'"]))
        # call it
        if is_async and is_gen:
            drv = self.fresh("drv")
            self.emit(ind, "async def %s():" % drv)
            self.emit(ind + 1, "out = []")
            self.emit(ind + 1, "async for it in %s(%s):" % (name, call))
            self.emit(ind + 2, "out.append(it)")
            self.emit(ind + 1, "return out + [x async for x in %s(%s)]" % (name, call))
            self.emit(ind, "print(_run(%s()))" % drv)
        elif is_async:
            self.emit(ind, "print(_run(%s(%s)))" % (name, call))
        elif is_gen:
            self.emit(ind, "print(list(%s(%s)))" % (name, call))
        else:
            self.emit(ind, "print(%s(%s))" % (name, call))
        if self.chance(0.3):
            self.emit(ind, "print(ascii(%s.__doc__), %s.__name__)" % (name, name))

    def closure_nest(self, ind):
        """Three-level closure with cells and free variables in varying first-use orders, parameter cells, class cells and
        cells that only dead code captures (they stay in co_cellvars without any instruction referencing them)."""
        r = self.r
        u = self.fresh("c")
        pool = ["a", "zz", "fn", "arg", "m", "b0", "k9", "Aa", "_u", "y"]
        r.shuffle(pool)
        v = [n + u for n in pool[:6]]          # outer locals / params
        outer = "outer" + u
        sig = self.pick(["%s", "%s, %s=2" % (v[0], v[1]), "%s, *%s" % (v[0], v[1]), "%s, *, %s=3" % (v[0], v[1]), "*%s, **%s" % (v[0], v[1])])
        if sig == "%s":
            sig = v[0]
        self.emit(ind, "def %s(%s):" % (outer, sig))
        body = []
        body.append("%s = 1 if not isinstance(%s, int) else %s" % (v[0], v[0], v[0]))
        for n in v[1:5]:
            body.append("%s = %d" % (n, r.randrange(9)))
        dead_outer = r.random() < 0.5
        if dead_outer:
            body.append("if 0:\n%s    %s = 5\n%s    def dead%s(): return %s" % ("    " * (ind + 1), v[5], "    " * (ind + 1), u, v[5]))
        for b in body:
            self.emit(ind + 1, b)
        mid = "mid" + u
        mv = ["mq" + u, "mr" + u, "ms" + u]
        self.emit(ind + 1, "def %s(%s=1, *w%s):" % (mid, mv[0], u))
        stmts = []
        frees = r.sample(v[:5], r.choice([1, 2, 3]))
        stmts.append("%s = %s + %s" % (mv[1], " + ".join(frees), mv[0]))         # free variables used, cell mv[1] created
        stmts.append("%s = len(w%s)" % (mv[2], u))
        if r.random() < 0.6:
            # a cell of mid that only dead code captures
            stmts.append("if 0:\n%s    dx%s = 2\n%s    def deadm%s(): return dx%s" % ("    " * (ind + 2), u, "    " * (ind + 2), u, u))
        if r.random() < 0.4:
            stmts.append("class K%s:\n%s    def meth(self): return (__class__.__name__, %s, %s)\n%sprint(K%s().meth())" % (
                u, "    " * (ind + 2), frees[0], mv[1], "    " * (ind + 2), u))
        inner_reads = r.sample(v[:5] + mv[1:], 3)
        stmts.append("def inn%s(t=%s):\n%s    return (%s, t)" % (u, r.choice(frees), "    " * (ind + 2), ", ".join(inner_reads)))
        if r.random() < 0.5:
            stmts.append("lam%s = lambda: (%s, %s)\n%sprint(lam%s())" % (u, r.choice(v[:5]), mv[2], "    " * (ind + 2), u))
        if r.random() < 0.4:
            stmts.append("def wr%s():\n%s    nonlocal %s\n%s    %s += 1\n%s    return %s" % (
                u, "    " * (ind + 2), mv[1], "    " * (ind + 2), mv[1], "    " * (ind + 2), mv[1]) + "\n%sprint(wr%s())" % ("    " * (ind + 2), u))
        # vary the order: free-variable uses before or after the cells are first referenced
        head, tail = stmts[:2], stmts[2:]
        r.shuffle(tail)
        if r.random() < 0.5:
            head.reverse()
        for st in head + tail:
            self.emit(ind + 2, st)
        self.emit(ind + 2, "return inn%s()" % u)
        self.emit(ind + 1, "return %s(%s)" % (mid, r.choice(["", "2", "2, 3, 4"])))
        call = {0: "1"}.get(0)
        if sig.startswith("*"):
            call = "1, 2, z=3"
        elif "*, " in sig:
            call = "1, %s=4" % v[1]
        self.emit(ind, "print(%s(%s))" % (outer, call))

    def classdef(self, ind, vars_, depth):
        name = self.fresh("C")
        base = self.pick(["", "(object)", "(Exception)", "(dict)"])
        self.emit(ind, "class %s%s:" % (name, base))
        self.docstring(ind + 1, cls=True)
        self.emit(ind + 1, "attr = %s" % self.iexpr([]))
        self.emit(ind + 1, "def meth(self, x=%s):" % self.const())
        self.docstring(ind + 2)
        self.emit(ind + 2, "return (__class__.__name__, self.attr, x)")
        if base == "(dict)":
            self.emit(ind + 1, "def __init__(self):")
            self.emit(ind + 2, "super().__init__(a=1)")
        self.emit(ind + 1, "@classmethod")
        self.emit(ind + 1, "def cm(cls, *a, k=1, **kw): return (cls.__name__, a, k, sorted(kw))")
        self.emit(ind + 1, "prop = property(lambda self: self.attr + 1)")
        self.emit(ind, "print(%s().meth(), %s.cm(1, z=2), %s().prop, ascii(%s.__doc__))" % ((name,) * 4))

    def program(self):
        self.lines = []
        if self.chance(0.2):
            self.emit(0, '"""module docstring"""')
        if self.chance(0.15):
            self.emit(0, "from __future__ import annotations")
        elif self.chance(0.05):
            self.emit(0, "from __future__ import %s" % self.pick(
                ["division", "print_function", "generator_stop", "unicode_literals", "absolute_import",
                 "with_statement", "nested_scopes", "generators"]))
        self.lines.extend(PRELUDE.splitlines())
        self.emit(0, "def _ident(f): return f")
        gvars = ["g0", "g1", "g2", "g3"]
        self.emit(0, "g0 = 0; g1 = 1; g2 = 2; g3 = 3")
        n = 3 + int(self.r.random() * 10 * self.size)
        for _ in range(n):
            self.stmt(0, gvars, 0)
        if self.chance(0.3):
            self.emit(0, "def _ann(a: int, b: 'str' = 1) -> None: x: int = a; return x")
            self.emit(0, "print(_ann(1), sorted(_ann.__annotations__))")
        if self.chance(0.7):
            self.closure_nest(0)
        self.emit(0, "print('end', g0, g1, g2, g3)")
        return "\n".join(self.lines) + "\n"


def gen_program(rng, pyver, size=1.0):
    return Gen(rng, pyver, size).program()
