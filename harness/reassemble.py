# W11: harness-side construction of serialization variants of a code object (never uses the library):
# permuted constant/name/local/cell tables with operands renumbered, unreferenced padding entries, CO_NESTED
# toggled, redundant EXTENDED_ARG prefixes on jumps.  Own re-assembler + line-table model.  Stdlib only, 3.7+.
from __future__ import print_function

import dis
import types

import hcommon as H
import decode_oracles as D
import lnotab_models as M

CO_NESTED, CO_NOFREE = 0x10, 0x40


def minsize(arg):
    if arg < 0:
        return 4
    return 1 if arg <= 0xFF else 2 if arg <= 0xFFFF else 3 if arg <= 0xFFFFFF else 4


def parse(code):
    """Folded instructions with symbolic jump targets (instruction indices)."""
    folded = H.folded_instructions(code)
    index_of = dict((f["start"], i) for i, f in enumerate(folded))
    out = []
    for f in folded:
        op = f["opcode"]
        arg = f["arg"]
        ins = {"op": op, "arg": D.wrap_oparg(arg) if arg is not None else 0, "nunits": f["nunits"],
               "line": H.addr2line(code, f["start"]), "target": None, "has_arg": op >= dis.HAVE_ARGUMENT}
        if op in D.JUMPS:
            tgt = D.jump_target(f)
            if tgt not in index_of or ins["arg"] < 0:
                return None
            ins["target"] = index_of[tgt]
            ins["rel"] = op in D.HASJREL
        out.append(ins)
    return out


def layout(instrs, forced):
    """Fix-point sizes; returns (sizes, args) or None."""
    n = len(instrs)
    sizes = [max(forced.get(i, 1), minsize(ins["arg"]) if ins["target"] is None else 1) for i, ins in enumerate(instrs)]
    for _round in range(64):
        offs = [0] * (n + 1)
        for i in range(n):
            offs[i + 1] = offs[i] + sizes[i]
        changed = False
        args = []
        for i, ins in enumerate(instrs):
            if ins["target"] is None:
                args.append(ins["arg"])
                continue
            t = offs[ins["target"]]          # in units
            if ins["rel"]:
                a = t - offs[i + 1]
            else:
                a = t
            if not H.IS310:
                a *= 2
            if a < 0:
                return None
            args.append(a)
            need = max(forced.get(i, 1), minsize(a))
            if need > sizes[i]:
                sizes[i] = need
                changed = True
        if not changed:
            return sizes, args
    return None


def emit(instrs, sizes, args):
    out = bytearray()
    for ins, size, arg in zip(instrs, sizes, args):
        a = arg & 0xFFFFFFFF
        for k in reversed(range(size)):
            out.append(ins["op"] if k == 0 else dis.EXTENDED_ARG)
            out.append((a >> (8 * k)) & 0xFF)
    return bytes(out)


def _perm(rng, n, fixed_prefix=0):
    idx = list(range(fixed_prefix, n))
    rng.shuffle(idx)
    return list(range(fixed_prefix)) + idx     # new order: position p holds old index order[p]


def variant(code, rng, ops):
    """Returns (variant code, description) or (None, reason)."""
    instrs = parse(code)
    if instrs is None:
        return None, "unparseable"
    fl = code.co_flags
    functionlike = (fl & 3) == 3
    nparams = code.co_argcount + code.co_kwonlyargcount + bool(fl & 4) + bool(fl & 8) if functionlike else 0
    consts, names = list(code.co_consts), list(code.co_names)
    varnames, cellvars = list(code.co_varnames), list(code.co_cellvars)
    desc = []
    maps = {}

    def apply_order(table, order, key):
        new = [table[o] for o in order]
        maps[key] = dict((old, newi) for newi, old in enumerate(order))
        return new

    if "perm_consts" in ops and len(consts) > 1:
        consts = apply_order(consts, _perm(rng, len(consts), 1 if functionlike else 0), "consts")
        desc.append("perm_consts")
    if "perm_names" in ops and len(names) > 1:
        names = apply_order(names, _perm(rng, len(names)), "names")
        desc.append("perm_names")
    if "perm_varnames" in ops and len(varnames) - nparams > 1:
        varnames = apply_order(varnames, _perm(rng, len(varnames), nparams), "varnames")
        desc.append("perm_varnames")
    old_ncell = len(cellvars)
    if "perm_cells" in ops and len(cellvars) > 1:
        cellvars = apply_order(cellvars, _perm(rng, len(cellvars)), "cellvars")
        desc.append("perm_cells")
    added_cells = 0
    if "pad_consts" in ops:
        consts.append(987654321123)
        if not functionlike or len(consts) > 2:
            # also one in the middle: shift by inserting then remapping
            pos = rng.randrange(1 if functionlike else 0, len(consts))
            order = list(range(len(consts)))
            order.insert(pos, order.pop())
            inv = maps.get("consts")
            newc = [consts[o] for o in order]
            m2 = dict((old, newi) for newi, old in enumerate(order))
            maps["consts"] = dict((k, m2[v]) for k, v in inv.items()) if inv else m2
            consts = newc
        desc.append("pad_consts")
    if "pad_names" in ops:
        names.append("w11_pad_name")
        desc.append("pad_names")
    if "pad_varnames" in ops and functionlike:
        varnames.append("w11_pad_local")
        desc.append("pad_varnames")
    if "pad_cells" in ops and functionlike:
        cellvars.append("w11_pad_cell")
        added_cells = 1
        desc.append("pad_cells")
    flags = fl
    if "toggle_nested" in ops:
        flags ^= CO_NESTED
        desc.append("toggle_nested")
    if cellvars or code.co_freevars:
        flags &= ~CO_NOFREE
    else:
        flags |= CO_NOFREE
    # renumber operands
    new_ncell = len(cellvars)
    for ins in instrs:
        op = ins["op"]
        if op in D.HASCONST and "consts" in maps:
            ins["arg"] = maps["consts"].get(ins["arg"], ins["arg"])
        elif op in D.HASNAME and "names" in maps:
            ins["arg"] = maps["names"].get(ins["arg"], ins["arg"])
        elif op in D.HASLOCAL and "varnames" in maps:
            ins["arg"] = maps["varnames"].get(ins["arg"], ins["arg"])
        elif op in D.HASFREE:
            if ins["arg"] < old_ncell:
                if "cellvars" in maps:
                    ins["arg"] = maps["cellvars"].get(ins["arg"], ins["arg"])
            else:
                ins["arg"] = ins["arg"] - old_ncell + new_ncell
    forced = {}
    # keep the prefixes the base already had on jumps (they are part of the base's serialization)
    if "ext_jumps" in ops:
        jumps = [i for i, ins in enumerate(instrs) if ins["target"] is not None]
        if jumps:
            for i in rng.sample(jumps, min(len(jumps), rng.choice([1, 1, 2, 3]))):
                forced[i] = rng.choice([2, 2, 3])
            desc.append("ext_jumps")
    if not desc:
        return None, "nothing to vary"
    lay = layout(instrs, forced)
    if lay is None:
        return None, "layout failed"
    sizes, args = lay
    bytecode = emit(instrs, sizes, args)
    table = M.table_for_lines([(s, ins["line"]) for s, ins in zip(sizes, instrs)], code.co_firstlineno, H.IS310)
    try:
        if H.PY >= (3, 8):
            v = types.CodeType(code.co_argcount, code.co_posonlyargcount, code.co_kwonlyargcount, len(varnames), code.co_stacksize,
                               flags, bytecode, tuple(consts), tuple(names), tuple(varnames), code.co_filename, code.co_name,
                               code.co_firstlineno, table, code.co_freevars, tuple(cellvars))
        else:
            v = types.CodeType(code.co_argcount, code.co_kwonlyargcount, len(varnames), code.co_stacksize,
                               flags, bytecode, tuple(consts), tuple(names), tuple(varnames), code.co_filename, code.co_name,
                               code.co_firstlineno, table, code.co_freevars, tuple(cellvars))
    except (ValueError, TypeError, OverflowError) as e:
        return None, "CodeType refused: %s" % e
    return v, "+".join(desc)


ALL_OPS = ["perm_consts", "perm_names", "perm_varnames", "perm_cells", "pad_consts", "pad_names", "pad_varnames", "pad_cells",
           "toggle_nested", "ext_jumps"]


def random_ops(rng):
    k = rng.choice([1, 1, 2, 3, 5])
    return set(rng.sample(ALL_OPS, k))
