# Symbolic reading of a code object built only on CPython's readers (dis, PyCode_Addr2Line,
# _PyCode_CheckLineNumber / co_lines).  Used by C05 (meaning preserved), C06 (variant faithfulness), C03.
from __future__ import print_function

import ctypes
import dis

import hcommon as H
import decode_oracles as D

CO_NESTED, CO_NOFREE = 0x10, 0x40
UNCONDITIONAL = set(["RETURN_VALUE", "RAISE_VARARGS", "JUMP_ABSOLUTE", "JUMP_FORWARD", "RERAISE", "CONTINUE_LOOP", "BREAK_LOOP"])


def symbolic(code):
    """Returns dict(instrs=[(opname, operand, line)], children=[code...], folded=[...])."""
    folded = H.folded_instructions(code)
    index_of = dict((f["start"], i) for i, f in enumerate(folded))
    ncell = len(code.co_cellvars)
    children = []
    child_no = {}
    out = []
    lookup = H.line_lookup(code)
    for f in folded:
        op = f["opcode"]
        if op in D.JUMPS:
            tgt = D.jump_target(f)
            operand = ("jump", "rel" if op in D.HASJREL else "abs", index_of.get(tgt, ("badtarget", tgt)))
        elif op in D.HASNAME:
            operand = ("name", code.co_names[f["arg"]] if f["arg"] < len(code.co_names) else ("badindex", f["arg"]))
        elif op in D.HASLOCAL:
            operand = ("local", code.co_varnames[f["arg"]] if f["arg"] < len(code.co_varnames) else ("badindex", f["arg"]))
        elif op in D.HASFREE:
            a = f["arg"]
            if a < ncell:
                operand = ("cell", code.co_cellvars[a])
            elif a - ncell < len(code.co_freevars):
                operand = ("free", code.co_freevars[a - ncell])
            else:
                operand = ("badindex", a)
        elif op in D.HASCONST:
            a = f["arg"]
            if a >= len(code.co_consts):
                operand = ("badindex", a)
            else:
                v = code.co_consts[a]
                if isinstance(v, H.CodeType):
                    if a not in child_no:
                        child_no[a] = len(children)
                        children.append(v)
                    operand = ("code", child_no[a])
                else:
                    operand = ("const", H.const_fp(v))
        elif op < dis.HAVE_ARGUMENT:
            operand = None
        else:
            operand = ("int", D.wrap_oparg(f["arg"]))
        out.append((f["opname"], operand, lookup(f["start"])))
    return {"instrs": out, "children": children, "folded": folded}


def header(code):
    fl = code.co_flags
    nparams = code.co_argcount + code.co_kwonlyargcount + bool(fl & 4) + bool(fl & 8)
    functionlike = (fl & 3) == 3
    doc = code.co_consts[0] if (functionlike and code.co_consts and isinstance(code.co_consts[0], str)) else None
    return {
        "argcount": code.co_argcount, "posonlyargcount": getattr(code, "co_posonlyargcount", 0),
        "kwonlyargcount": code.co_kwonlyargcount, "params": code.co_varnames[:nparams], "doc": doc,
        "freevars": code.co_freevars, "name": code.co_name, "filename": code.co_filename,
        "firstlineno": code.co_firstlineno, "stacksize": code.co_stacksize,
        "flags": fl & ~(CO_NESTED | CO_NOFREE),
    }


def reachable(instrs):
    """Indices reachable in the block graph from instruction 0."""
    seen = set()
    work = [0] if instrs else []
    n = len(instrs)
    while work:
        i = work.pop()
        if i in seen or not (0 <= i < n):
            continue
        seen.add(i)
        opname, operand, _l = instrs[i]
        if operand is not None and operand[0] == "jump" and isinstance(operand[2], int):
            work.append(operand[2])
        if opname not in UNCONDITIONAL:
            work.append(i + 1)
    return seen


class _AddrPair(ctypes.Structure):
    _fields_ = [("ap_lower", ctypes.c_int), ("ap_upper", ctypes.c_int)]


_check = None
if not H.IS310:
    _check = ctypes.pythonapi._PyCode_CheckLineNumber
    _check.argtypes = [ctypes.py_object, ctypes.c_int, ctypes.POINTER(_AddrPair)]
    _check.restype = ctypes.c_int


def window_starts(code, folded=None):
    """[(instruction index, line)] for the instructions at which CPython opens a line-event window."""
    if folded is None:
        folded = H.folded_instructions(code)
    out = []
    if H.IS310:
        ranges = []
        for s, e, l in code.co_lines():
            if s == e:
                continue
            if ranges and ranges[-1][2] == l and ranges[-1][1] == s:
                ranges[-1][1] = e
            else:
                ranges.append([s, e, l])
        starts = dict((r[0], r[2]) for r in ranges if r[2] is not None)
        for i, f in enumerate(folded):
            if f["start"] in starts:
                out.append((i, starts[f["start"]]))
        return out
    b = _AddrPair()
    for i, f in enumerate(folded):
        line = _check(code, f["start"], ctypes.byref(b))
        if b.ap_lower == f["start"]:
            out.append((i, line))
    return out


def lnotab_zero_sum_addresses(code):
    """<=3.9: addresses at which >=1 entries with non-zero line delta sum to zero (F-C05a shape)."""
    if H.IS310:
        return set()
    lt = code.co_lnotab
    groups = {}
    addr = 0
    for i in range(0, len(lt), 2):
        addr += lt[i]
        d = lt[i + 1]
        d = d - 256 if d > 127 else d
        groups.setdefault(addr, []).append(d)
    return set(a for a, ds in groups.items() if any(ds) and sum(ds) == 0 and a > 0) | \
        set(a for a, ds in groups.items() if a == 0 and any(ds) and sum(ds) == 0)


def compare(a, b, report, path="", allow_flags=True, stats=None):
    """C05 oracle A + A': symbolic equality of code objects a (original) and b (normalized), recursively.

    report(clause, detail, mech)."""
    sa, sb = symbolic(a), symbolic(b)
    ia, ib = sa["instrs"], sb["instrs"]
    where = path or a.co_name
    if len(ia) != len(ib):
        report("instruction count", "%s: %d vs %d instructions" % (where, len(ia), len(ib)), None)
        return
    for k, (x, y) in enumerate(zip(ia, ib)):
        if x[0] != y[0] or x[1] != y[1]:
            mech = None
            if x[0] == y[0] and x[1] and y[1] and x[1][0] == "const" and y[1][0] == "const":
                # same constant once every NaN is identified (sign / payload of a NaN differs)?
                fa, fb = sa["folded"][k], sb["folded"][k]
                va, vb = a.co_consts[fa["arg"]], b.co_consts[fb["arg"]]
                if H.const_fp(va, nan_ident=True) == H.const_fp(vb, nan_ident=True):
                    mech = "distinct-nan-constants-merged"
            report("instruction stream", "%s: instruction %d: %s vs %s" % (where, k, H.short(x[:2], 200), H.short(y[:2], 200)), mech)
            if mech is None:
                return
            continue
        if x[2] != y[2]:
            report("instruction line", "%s: instruction %d %s: line %r vs %r" % (where, k, x[0], x[2], y[2]), None)
            return
    ha, hb = header(a), header(b)
    for key in ha:
        if ha[key] != hb[key] or type(ha[key]) is not type(hb[key]):
            report("header:" + key, "%s: %s vs %s" % (where, H.short(ha[key], 150), H.short(hb[key], 150)), None)
    if not set(b.co_cellvars) <= set(a.co_cellvars):
        report("cell variables", "%s: normalized code has new cell variables %r vs %r" % (where, b.co_cellvars, a.co_cellvars), None)
    nofree_a, nofree_b = bool(a.co_flags & CO_NOFREE), bool(b.co_flags & CO_NOFREE)
    if nofree_a and not nofree_b:
        report("CO_NOFREE lost", where, None)
    if nofree_b and not nofree_a and not (set(a.co_cellvars) - set(b.co_cellvars)):
        report("CO_NOFREE gained without a vanished cell variable", where, None)
    # A': line-event windows
    wa, wb = window_starts(a, sa["folded"]), window_starts(b, sb["folded"])
    if stats is not None:
        stats["windows"] = stats.get("windows", 0) + len(wa)
    if wa != wb:
        reach = reachable(ia)
        da = [w for w in wa if w not in set(wb)]
        db = [w for w in wb if w not in set(wa)]
        judged = [w for w in da + db if w[0] in reach]
        if not judged:
            if stats is not None:
                stats["window_diff_unreachable_only"] = stats.get("window_diff_unreachable_only", 0) + 1
        else:
            mech = None
            zs = lnotab_zero_sum_addresses(a)
            if not db and da and all(sa["folded"][w[0]]["start"] in zs for w in da):
                mech = "cancelling-zero-width-lnotab-deltas"
            elif not H.IS310:
                import props.c01 as c01
                mids, nexts = c01.lnotab_mid_instruction(a)
                if mids and all(sa["folded"][w[0]]["start"] in nexts for w in da + db):
                    mech = "lnotab-entry-inside-extended-arg-instruction"
            report("line-event windows", "%s: window starts only in original %s, only in normalized %s" % (where, da[:6], db[:6]), mech)
    ca, cb = sa["children"], sb["children"]
    if len(ca) != len(cb):
        report("nested code count", "%s: %d vs %d referenced nested code objects" % (where, len(ca), len(cb)), None)
        return
    for i, (x, y) in enumerate(zip(ca, cb)):
        compare(x, y, report, "%s/%s" % (where, x.co_name), allow_flags, stats)
