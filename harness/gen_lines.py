# W7: abstract line programs -> line tables through the assembler models -> code objects carrying them.
from __future__ import print_function

import dis
import types

import hcommon as H
import lnotab_models as M

DELTAS = [1, 1, 1, 2, 3, 5, 126, 127, 128, 129, 253, 254, 255, 256, 257, 381, 382, 508, 509, 510, 511, 635, 1000]
RUNS = [1, 1, 1, 2, 3, 5, 62, 63, 64, 126, 127, 128, 129, 130, 253, 254, 255, 256, 257, 300, 381, 382, 509, 510, 511, 512]
NOP = dis.opmap["NOP"]


def abstract_program(rng, is310, hostile=True):
    """Returns (firstlineno, [(size_units, line | None)], flags) ; flags: per-instruction 'i_lineno set' for 3.7/3.8."""
    first = rng.choice([1, 1, 2, 10, 200, 1000, 40000])
    line = first
    instrs = []
    n_runs = rng.choice([1, 2, 3, 5, 8, 13, 30])
    for r in range(n_runs):
        run = rng.choice(RUNS) if rng.random() < 0.5 else rng.choice([1, 1, 2, 3, 4])
        if r > 0 or rng.random() < 0.7:
            d = rng.choice(DELTAS) if rng.random() < 0.6 else rng.choice([1, 1, 1, 2])
            if rng.random() < 0.35:
                d = -d
            if line + d < 1:
                d = abs(d)
            # lines below co_firstlineno are legal (decorators, multi-line expressions)
            line += d
        noline = is310 and rng.random() < 0.15
        for k in range(run):
            instrs.append((1, None if noline else line))
    return first, instrs


def make_code(table, n_units, firstlineno, name="w7"):
    code = bytes(bytearray([NOP, 0] * n_units))
    if H.PY >= (3, 8):
        return types.CodeType(0, 0, 0, 0, 1, 0x40, code, (None,), (), (), "<w7>", name, firstlineno, table, (), ())
    return types.CodeType(0, 0, 0, 1, 0x40, code, (None,), (), (), "<w7>", name, firstlineno, table, (), ())


def model_table(rng, is310):
    """One model-emitted table: returns dict(table, n_units, firstlineno, desc) or None."""
    first, instrs = abstract_program(rng, is310)
    n = len(instrs)
    if is310:
        return {"table": M.linetable_310(instrs, first), "n_units": n, "firstlineno": first,
                "stage": "assemble_line_range", "program": _rle(instrs)}
    if H.PY >= (3, 9):
        table = M.lnotab_39(instrs, first)
        stage = "assemble_lnotab-3.9"
    else:
        # 3.7/3.8: i_lineno is only set on the first instruction of a statement; a new statement on the same line
        # re-emits the line (zero line delta with a non-zero bytecode delta)
        flagged = []
        prev = None
        for size, line in instrs:
            if line != prev or rng.random() < 0.08:
                flagged.append((size, line))
            else:
                flagged.append((size, 0))
            prev = line
        table = M.lnotab_37(flagged, first)
        stage = "assemble_lnotab-3.7"
    removed = set()
    if rng.random() < 0.4:
        # peephole pass: runs of instructions folded away (constant folding) -> zero-width / merged entries
        k = rng.choice([1, 2, 3, 5])
        for _ in range(k):
            start = rng.randrange(n)
            ln = rng.choice([1, 2, 3, 4, 8])
            for u in range(start, min(n - 1, start + ln)):
                removed.add(u)
        t2 = M.peephole_fixup(table, removed, n)
        if t2 is not None:
            table = t2
            n = n - len(removed)
            stage += "+peephole-fixup"
        else:
            removed = set()
    return {"table": table, "n_units": max(n, 1), "firstlineno": first, "stage": stage, "program": _rle(instrs),
            "removed": sorted(removed)[:20]}


def _rle(instrs):
    out = []
    for size, line in instrs:
        if out and out[-1][1] == line:
            out[-1][0] += size
        else:
            out.append([size, line])
    return out[:40]
