# W9: constants over type x nesting x edge values, planted in code objects.  Stdlib only, 3.7+.
from __future__ import print_function

import struct
import types

import hcommon as H


def _f(bits):
    return struct.unpack("<d", struct.pack("<Q", bits))[0]


NAN_Q = _f(0x7FF8000000000000)
NAN_NEG = _f(0xFFF8000000000000)
NAN_PAYLOAD = _f(0x7FF8000000000123)
NAN_S = _f(0x7FF4000000000001)
INF = float("inf")

INTS = [0, 1, -1, 2, 255, 256, 65535, 65536, 2 ** 31 - 1, 2 ** 31, -2 ** 31, 2 ** 53 - 1, 2 ** 53, 2 ** 53 + 1,
        -(2 ** 53) + 1, -(2 ** 53), -(2 ** 53) - 1, 2 ** 63 - 1, 2 ** 63, -2 ** 63, 2 ** 64, 10 ** 40, -10 ** 40,
        3 ** 2000, -(7 ** 4000 // 10 ** 10), int("f" * 4000, 16), -int("7" + "0" * 4200, 16)]
FLOATS = [0.0, -0.0, 1.0, -1.0, 1.5, 0.1, 1e22, 1e-7, 5e-324, 1.7976931348623157e308, 2.0 ** 53, 2.0 ** 53 + 2, 9007199254740993.0,
          INF, -INF, NAN_Q, NAN_NEG, NAN_PAYLOAD, NAN_S, 1e16, 123456789012345678.0, 3.141592653589793]
STRS = ["tired \U0001f971", "\U0001fad0\U0001fae0\U0001fae8", "\u061d\u2028\u200d\x85", "", "a", "abc", "é", "\U0001f600", "\ud800", "\udc80x", "x\udfff", "𐀀", "a\x00b", "q" * 300, "'quote\"s\\",
        "\n\t\r", "  ", "{\"string\": 1}", "nan", "int", "\x7f\x80",
        # lone surrogate next to characters that entered Unicode in 12.0 / 13.0 / 14.0 / 15.0 (printable on newer hosts only)
        "\udc80\U0001fa70", "\ud800\U0001fad6", "\udfff\U0001fae0\U0001fae8", "\ud800\u0870\U0001e030"]
BYTES = [b"", b"a", b"\xff\x00", bytes(bytearray(range(256))), b"abc" * 50, b"'\"\\"]
COMPLEX = [0j, complex(0.0, -0.0), complex(-0.0, 0.0), complex(-0.0, -0.0), 1j, complex(1.5, -2.5), complex(NAN_Q, INF),
           complex(INF, -INF), complex(NAN_NEG, NAN_PAYLOAD), complex(1e308, -5e-324), complex(2.0 ** 53 + 2, 0.1)]
SINGLES = [None, True, False, Ellipsis]
LEAVES = SINGLES + INTS + FLOATS + STRS + BYTES + COMPLEX

# CPython-distinct families (equal by == or close to it, distinct for the constant table)
FAMILIES = [
    [0, 0.0, -0.0, False, 0j, complex(0.0, -0.0), complex(-0.0, 0.0), complex(-0.0, -0.0)],
    [1, 1.0, True, (1 + 0j)],
    ["a", b"a", ("a",), (b"a",), frozenset(["a"]), frozenset([b"a"])],
    [(1,), (1.0,), (True,), ((1,),), frozenset([1]), frozenset([1.0]), frozenset([True])],
    [(0.0,), (-0.0,), (0,), frozenset([0.0]), frozenset([-0.0]), (0.0, -0.0), (-0.0, 0.0)],
    [NAN_Q, NAN_NEG, NAN_PAYLOAD, (NAN_Q,), (NAN_NEG,), frozenset([NAN_Q]), complex(NAN_Q, 0.0), complex(0.0, NAN_Q)],
    [None, (), frozenset(), "", b"", Ellipsis, (None,), ((),)],
    [2 ** 53, 2.0 ** 53, 2 ** 53 + 1, 2 ** 64, float(2 ** 64)],
    ["\ud800", "\\ud800", "'\\ud800'", ("\ud800",), frozenset(["\ud800"])],
]


def _parts(v):
    if isinstance(v, complex):
        return [v.real, v.imag]
    if isinstance(v, (tuple, frozenset)):
        return list(v)
    return [v]


def lookalikes(v):
    """Legal constants that look like a serialised / keyed image of the constant v: whatever tags, reprs, flags or
    digests an implementation derives from v to tell constants apart can be spelled as a constant of its own."""
    tn = type(v).__name__
    out = [repr(v), str(v), ascii(v), (tn, v), (tn, repr(v)), (tn, str(v)), (v, tn), (tn,) + tuple(str(x) for x in _parts(v)),
           (tn,) + tuple(repr(x) for x in _parts(v)), (v,), (v, True), (v, False), (type(v).__module__ + "." + tn, v), tn + ":" + repr(v),
           repr(v).encode("ascii", "backslashreplace"), frozenset([v]), (tn, (v,)),
           ("<class '%s'>" % tn, v), str(type(v)), (str(type(v)), v)]
    if isinstance(v, (int, float, complex)) and v == v:
        out += [(tn, len(_parts(v)), hash(v)), hash(v), (tn, hash(v))]       # process-independent hashes only
    if isinstance(v, float) and v != v:
        out += ["nan", ("float", "nan"), (0.0, True), ("nan",), float("nan")]
    if isinstance(v, float) and v == 0:
        out += [("float", "-0.0"), (0.0, True), (0.0, False), "-0.0", "0.0"]
    res, seen = [], set()
    for x in out:
        k = repr(H.const_fp(x))
        if k not in seen:
            seen.add(k)
            res.append(x)
    return res


def _big(n, first):
    return (first,) + tuple(range(1, n))


LOOKALIKE_SEEDS = [NAN_Q, -0.0, 0.0, 1, True, 1.0, b"ok", "ok", complex(NAN_Q, -0.0), complex(0.0, -0.0), None, Ellipsis, (1, "a"), frozenset([1]),
                   2 ** 70, "\udc80", ""]
# containers past the sizes where implementations switch strategy (caches, digests instead of element-wise keys)
BIG_FAMILIES = [[_big(n, 0), _big(n, 0.0), _big(n, False), _big(n, -0.0), _big(n, 0j), frozenset(_big(n, 0)), frozenset(_big(n, 0.0)), frozenset(_big(n, False))]
                for n in (65, 300)]
BIG_FAMILIES.append([tuple([1] * 70), tuple([True] * 70), tuple([1.0] * 70), tuple([1] * 69 + [True]), tuple([1] * 69 + [1.0]),
                     (tuple(range(70)),), (tuple([0.0] + list(range(1, 70))),)])


_N_BASE_FAMILIES = len(FAMILIES)


def family_pairs():
    """Every pair inside the hand-written CPython-distinct families (always run, in every tier)."""
    out = []
    for fi, fam in enumerate(FAMILIES[:_N_BASE_FAMILIES]):
        for i in range(len(fam)):
            for j in range(i + 1, len(fam)):
                out.append(("fam%d.%d.%d" % (fi, i, j), fam[i], fam[j]))
    return out


BIG_CONSTANTS = [b"\x01" * (2 ** 20 + 1), b"ab" * (2 ** 20 + 2 ** 18), "s" * (2 ** 20 + 1), "\u20ac" * 400000, 7 ** 400000]


def lookalike_pairs():
    """Deterministic list of (label, a, b): a constant beside one of its look-alikes, and big containers that differ in one slot's type."""
    out = []
    for si, v in enumerate(LOOKALIKE_SEEDS):
        for li, l in enumerate(lookalikes(v)):
            out.append(("look%d.%d" % (si, li), v, l))
    for fi, fam in enumerate(BIG_FAMILIES):
        for i in range(len(fam)):
            for j in range(i + 1, len(fam)):
                out.append(("big%d.%d.%d" % (fi, i, j), fam[i], fam[j]))
    return out


def value(rng, depth=0, maxdepth=4):
    c = rng.random()
    if depth >= maxdepth or c < 0.55:
        return LEAVES[rng.randrange(len(LEAVES))]
    n = rng.choice([0, 1, 1, 2, 3, 5])
    items = [value(rng, depth + 1, maxdepth) for _ in range(n)]
    if c < 0.8:
        return tuple(items)
    try:
        return frozenset(items)
    except TypeError:
        return tuple(items)


FAMILIES = FAMILIES + [[v] + lookalikes(v) for v in LOOKALIKE_SEEDS] + BIG_FAMILIES


def family_values():
    out = []
    for fam in FAMILIES:
        out.extend(fam)
    return out


def rebuild(code, **ch):
    g = lambda n: ch.get(n, getattr(code, n))
    if H.PY >= (3, 8):
        return types.CodeType(g("co_argcount"), g("co_posonlyargcount"), g("co_kwonlyargcount"), g("co_nlocals"),
                              g("co_stacksize"), g("co_flags"), g("co_code"), g("co_consts"), g("co_names"),
                              g("co_varnames"), g("co_filename"), g("co_name"), g("co_firstlineno"),
                              getattr(code, H.LINE_ATTR), g("co_freevars"), g("co_cellvars"))
    return types.CodeType(g("co_argcount"), g("co_kwonlyargcount"), g("co_nlocals"),
                          g("co_stacksize"), g("co_flags"), g("co_code"), g("co_consts"), g("co_names"),
                          g("co_varnames"), g("co_filename"), g("co_name"), g("co_firstlineno"),
                          getattr(code, H.LINE_ATTR), g("co_freevars"), g("co_cellvars"))


_MARK = 987654321
_BASES = {}


def _base(kind):
    if kind not in _BASES:
        src = {
            "module": "x = 987654321\ny = [987654322, 987654323]\n",
            "func": "def f(a, b=1):\n    loc = 987654321\n    return (loc, 987654322, glob.attr, 987654323)\n",
            "docfunc": "def f(a):\n    'DOCSTRING'\n    return a.attr + 987654321\n",
            "closure": "def o(fv):\n    def f(p):\n        return fv + p + 987654321\n    return f\n",
            "unused": "def f():\n    return 987654321\n    return 987654322\n",
        }[kind]
        _BASES[kind] = compile(src, "<w9-%s>" % kind, "exec", dont_inherit=True)
    return _BASES[kind]


def _replace_consts(code, mapping):
    new = tuple(mapping.get(c, c) if not isinstance(c, H.CodeType) else c for c in code.co_consts)
    return rebuild(code, co_consts=new)


def _replace_in_child(mod, fn):
    """Apply fn to the (first) nested code object of a module and return the new module code."""
    new = []
    done = False
    for c in mod.co_consts:
        if isinstance(c, H.CodeType) and not done:
            c = fn(c)
            done = True
        new.append(c)
    return rebuild(mod, co_consts=tuple(new))


def build_case(seed, i, pair=None, layout=None):
    """Deterministic W9 case -> (id, code object, description)."""
    rng = H.rng_for(seed, "w9", i)
    if pair is not None and pair >= 2000000:
        v = BIG_CONSTANTS[pair - 2000000]
        code = _replace_consts(_base("module"), {987654321: v, 987654322: 0, 987654323: v})
        return "w9:big:%d" % (pair - 2000000), code, "%s of length %d" % (type(v).__name__, len(v) if not isinstance(v, int) else v.bit_length())
    if pair is not None:
        label, a, b = (family_pairs()[pair - 1000000] if pair >= 1000000 else lookalike_pairs()[pair])
        if pair % 2:
            a, b = b, a
        if layout is None:
            layout = (pair // 2) % 3
        if layout == 0:
            code = _replace_consts(_base("module"), {987654321: a, 987654322: b, 987654323: a})
        elif layout == 1:
            code = _replace_in_child(_base("func"), lambda c: _replace_consts(c, {987654321: a, 987654322: b, 987654323: b}))
        else:
            code = _replace_in_child(_base("unused"), lambda c: _replace_consts(c, {987654321: a, 987654322: b}))
        return "w9:pair:%s:%d" % (label, layout), code, H.short([a, b], 300)
    mode = i % 12
    fams = family_values()
    if mode in (0, 1, 2):   # constants as operands of module code
        vals = [value(rng) for _ in range(3)]
        if mode == 2:
            vals = [fams[rng.randrange(len(fams))] for _ in range(3)]
        code = _replace_consts(_base("module"), {987654321: vals[0], 987654322: vals[1], 987654323: vals[2]})
        return "w9:%d:module-consts" % i, code, H.short(vals, 2000)
    if mode in (3, 4):      # constants inside a function (constant 0 is the docstring slot)
        vals = [value(rng) for _ in range(3)]
        code = _replace_in_child(_base("func"), lambda c: _replace_consts(c, {987654321: vals[0], 987654322: vals[1], 987654323: vals[2]}))
        return "w9:%d:func-consts" % i, code, H.short(vals, 2000)
    if mode == 5:           # docstring position
        s = STRS[rng.randrange(len(STRS))]
        code = _replace_in_child(_base("docfunc"), lambda c: _replace_consts(c, {"DOCSTRING": s, 987654321: value(rng)}))
        return "w9:%d:docstring" % i, code, H.short(s, 2000)
    if mode == 6:           # unreferenced constant (additional argument)
        vals = [value(rng), value(rng)]
        code = _replace_in_child(_base("unused"), lambda c: _replace_consts(c, {987654321: vals[0], 987654322: vals[1]}))
        return "w9:%d:additional-arg" % i, code, H.short(vals, 2000)
    s = STRS[rng.randrange(len(STRS))] or "empty"
    if mode == 7:           # filename / name
        which = rng.choice(["co_filename", "co_name", "both"])
        def fn(c):
            ch = {}
            if which in ("co_filename", "both"):
                ch["co_filename"] = s
            if which in ("co_name", "both"):
                ch["co_name"] = s
            return rebuild(c, **ch)
        mod = _replace_in_child(_base("func"), fn)
        if which != "co_name":
            mod = rebuild(mod, co_filename=s)
        return "w9:%d:%s" % (i, which), mod, H.short(s, 2000)
    if mode == 8:           # global / attribute names
        def fn(c):
            s_ = s if s not in c.co_names else s + "_"        # never a duplicate entry (no compiler or assembler makes one)
            return rebuild(c, co_names=tuple(s_ if n == "attr" else n for n in c.co_names))
        return "w9:%d:names" % i, _replace_in_child(_base("func"), fn), H.short(s, 2000)
    if mode == 9:           # local variable and parameter names
        tgt = rng.choice(["loc", "a", "b"])
        def fn(c):
            s_ = s if s not in c.co_varnames else s + "_"     # `def f(a, a)` is not a signature CPython can bind
            return rebuild(c, co_varnames=tuple(s_ if n == tgt else n for n in c.co_varnames))
        return "w9:%d:varnames-%s" % (i, tgt), _replace_in_child(_base("func"), fn), H.short(s, 2000)
    if mode == 10:          # cell / free variable names
        def outer(c):
            inner = [x for x in c.co_consts if isinstance(x, H.CodeType)][0]
            s_ = s if s not in c.co_varnames and s not in inner.co_varnames else s + "_"
            inner2 = rebuild(inner, co_freevars=(s_,))
            c2 = rebuild(c, co_consts=tuple(inner2 if x is inner else x for x in c.co_consts),
                         co_cellvars=(s_,), co_varnames=tuple(s_ if n == "fv" else n for n in c.co_varnames))
            return c2
        return "w9:%d:cell-free" % i, _replace_in_child(_base("closure"), outer), H.short(s, 2000)
    # mode 11: family members side by side
    fam = FAMILIES[rng.randrange(len(FAMILIES))]
    vals = [fam[rng.randrange(len(fam))] for _ in range(3)]
    code = _replace_consts(_base("module"), {987654321: vals[0], 987654322: vals[1], 987654323: vals[2]})
    return "w9:%d:family" % i, code, H.short(vals, 2000)


def source_case(seed, i):
    """Constants as source literals that the compiler folds (route (a))."""
    rng = H.rng_for(seed, "w9src", i)
    lits = ["1e999", "-1e999", "(1e999 - 1e999)", "-(1e999 - 1e999)", "0.0", "-0.0", "1", "True", "1.0", "'a'", "b'a'", "2**70",
            "-2**63", "(1, 2.0, (True, (None, ...)))", "1j", "-0j", "(0.0, -0.0)", "'\\ud800'", "'\\udc80' 'x'", "b'\\xff' * 3",
            "'ab' * 5", "(1e999 - 1e999, 1e999 - 1e999)", "1e999 * 0", "2**53 + 1", "-(2**53)", "10**30", "..."]
    n = rng.randrange(2, 7)
    parts = [lits[rng.randrange(len(lits))] for _ in range(n)]
    src = "x = [" + ", ".join(parts) + "]\n"
    src += "def f(v):\n    return v in {%s}, v in (%s)\n" % (", ".join(lits[rng.randrange(len(lits))] for _ in range(3)).replace("(1e999 - 1e999, 1e999 - 1e999)", "3"),
                                                          ", ".join(lits[rng.randrange(len(lits))] for _ in range(3)))
    return "w9src:%d" % i, src
