# Shared worker-side helpers. Stdlib only, must run on CPython 3.7 .. 3.13.
from __future__ import print_function

import ctypes
import dis
import hashlib
import json
import os
import struct
import sys
import types
import zlib

PY = sys.version_info[:2]
PYTAG = "%d.%d" % PY
IS310 = PY >= (3, 10)
CodeType = types.CodeType

_out = None
_counters = {}
_viol_count = {}
_distinct = set()
_features = {}
_samples = []
MAX_VIOL_PER_KEY = 6
MAX_SAMPLES = 6


def open_out(path):
    global _out
    _out = open(path, "w")


def emit(rec):
    try:
        line = json.dumps(rec, default=srepr)
    except ValueError:
        line = json.dumps(_json_safe(rec), default=srepr)
    _out.write(line + "\n")


def _json_safe(x):
    if isinstance(x, bool) or x is None or isinstance(x, (str, float)):
        return x
    if isinstance(x, int):
        return x if abs(x) < 10 ** 300 else hex(x)
    if isinstance(x, dict):
        return dict((str(k), _json_safe(v)) for k, v in x.items())
    if isinstance(x, (list, tuple)):
        return [_json_safe(v) for v in x]
    return srepr(x)


def count(name, n=1):
    _counters[name] = _counters.get(name, 0) + n


def feature(name, n=1):
    _features[name] = _features.get(name, 0) + n


def distinct(key):
    """Record one distinct non-trivial case (key: bytes or str)."""
    if not isinstance(key, bytes):
        key = key.encode("utf-8", "surrogatepass")
    _distinct.add(hashlib.md5(key).hexdigest()[:12])


def distinct_by_construction(n):
    """n further cases that are distinct by construction (e.g. enumerated integers)."""
    count("distinct_by_construction", n)


def sample(obj):
    if len(_samples) < MAX_SAMPLES:
        _samples.append(obj)


class no_int_limit(object):
    """Harness-side code (dis, repr of witnesses, json of records) runs without the interpreter's limit on the decimal
    conversion of huge ints; the library under test always runs under the interpreter's default limit."""

    def __enter__(self):
        self.old = None
        if hasattr(sys, "get_int_max_str_digits"):
            self.old = sys.get_int_max_str_digits()
            if self.old:
                sys.set_int_max_str_digits(0)
        return self

    def __exit__(self, *a):
        if self.old:
            sys.set_int_max_str_digits(self.old)
        return False


def srepr(x):
    """repr() that survives ints beyond the interpreter's decimal-string limit (they are shown in hex)."""
    try:
        return repr(x)
    except ValueError:
        with no_int_limit():
            try:
                r = repr(x)
                return r if len(r) < 3000 else r[:3000] + "..."
            except ValueError:
                pass
        if isinstance(x, int):
            return hex(x)
        if isinstance(x, (tuple, frozenset, list)):
            return "%s(%s)" % (type(x).__name__, ", ".join(srepr(i) for i in x))
        if hasattr(x, "__dataclass_fields__"):
            return "%s(%s)" % (type(x).__name__, ", ".join("%s=%s" % (k, srepr(getattr(x, k))) for k in x.__dataclass_fields__))
        return "<unprintable %s>" % type(x).__name__


def short(x, n=400):
    s = x if isinstance(x, str) else srepr(x)
    if len(s) > n:
        s = s[:n] + "...(%d chars)" % len(s)
    return s


def bytes_strict(on):
    """`python -b` workers only: make a str/bytes comparison issued from the library's own frames an error (on) or not (off)."""
    if not sys.flags.bytes_warning:
        return
    import warnings
    warnings.filterwarnings("error" if on else "ignore", category=BytesWarning, module=r"(.*[/.])?code_data([./].*)?$")


def mixes_str_and_bytes_in_a_set(code):
    """A frozenset constant holding both str and bytes (at any depth): building such a set compares the two whenever their
    hashes collide - CPython's own compiler warns for it under -b -, so the library cannot avoid the warning either."""
    def kinds(v, acc):
        if isinstance(v, (tuple, frozenset)):
            for x in v:
                kinds(x, acc)
        else:
            acc.add(type(v))
        return acc

    def walk(v):
        if isinstance(v, frozenset):
            k = kinds(v, set())
            if str in k and bytes in k:
                return True
        if isinstance(v, (tuple, frozenset)):
            return any(walk(x) for x in v)
        if isinstance(v, CodeType):
            return any(walk(x) for x in v.co_consts)
        return False
    return walk(code)


def violation_pyflags():
    return (["-" + "O" * sys.flags.optimize] if sys.flags.optimize else []) + (["-b"] if sys.flags.bytes_warning else []) + \
        (["vendored-copy"] if LIBNAME != "code_data" else [])


def violation(prop, monitor, clause, case, detail, mech=None):
    """Record a refuting observation. Never raises into the library."""
    key = (monitor, clause, mech)
    _viol_count[key] = _viol_count.get(key, 0) + 1
    if _viol_count[key] > MAX_VIOL_PER_KEY:
        return
    emit({
        "t": "viol", "prop": prop, "monitor": monitor, "clause": clause,
        "interp": PYTAG, "case": case, "detail": short(detail, 1500), "mech": mech,
        "pyflags": violation_pyflags(),
    })


def inconclusive(prop, reason, case=None):
    count("inconclusive:" + reason)
    emit({"t": "inconclusive", "prop": prop, "reason": reason, "interp": PYTAG,
          "case": case})


def finish():
    emit({"t": "summary", "interp": PYTAG, "counters": _counters,
          "features": _features, "distinct": sorted(_distinct),
          "samples": _samples,
          "viol_totals": [[list(map(str, k)), v] for k, v in _viol_count.items()]})
    _out.close()


def rng_for(seed, *parts):
    import random
    s = ":".join([str(seed)] + [str(p) for p in parts])
    return random.Random(zlib.crc32(s.encode()))


# ---------------------------------------------------------------------------
# monitors: wrap a module global / class attribute with a post-condition

def _monitor_error(label, where):
    import traceback
    count("monitor_errors")
    if _counters.get("monitor_errors", 0) <= 5:
        emit({"t": "monitor_error", "monitor": label, "where": where, "trace": traceback.format_exc()[-1500:]})


IN_STORM = [False]        # stress.fault_storm: deliberately rejected calls; only monitors created with storm=True observe them
MONITORS_OFF = [False]    # stress.py: monitors keep per-call state that is not thread-safe; they are inert while threads run


class Monitor(object):
    """Post-condition wrapper. The condition observes; it never alters the call."""

    def __init__(self, owner, name, post=None, pre=None, label=None, storm=False):
        self.owner = owner
        self.name = name
        self.label = label or name
        self.orig = owner.__dict__[name] if isinstance(owner, type) else getattr(owner, name)
        self.post = post
        self.pre = pre
        self.depth = 0
        self.enabled = True
        self.storm = storm

    def install(self, also=()):
        mon = self
        raw = self.orig
        kind = None
        if isinstance(raw, classmethod):
            kind, fn = "cm", raw.__func__
        elif isinstance(raw, staticmethod):
            kind, fn = "sm", raw.__func__
        else:
            fn = raw

        def wrapper(*a, **k):
            if not mon.enabled or MONITORS_OFF[0] or (IN_STORM[0] and not mon.storm):
                return fn(*a, **k)
            count("calls:" + mon.label)
            snap = None
            if mon.pre is not None:
                try:
                    snap = mon.pre(a, k, mon.depth)
                except Exception:
                    _monitor_error(mon.label, "pre")
            mon.depth += 1
            try:
                res = fn(*a, **k)
            except BaseException as e:
                mon.depth -= 1
                if mon.post is not None:
                    try:
                        mon.post(a, k, None, e, mon.depth, snap)
                    except Exception:
                        _monitor_error(mon.label, "post")
                raise
            mon.depth -= 1
            if mon.post is not None:
                try:
                    mon.post(a, k, res, None, mon.depth, snap)
                except Exception:
                    # a fault of the monitor must never look like behaviour of the library
                    _monitor_error(mon.label, "post")
            return res

        wrapper.__wrapped__ = fn
        wrapper.__name__ = getattr(fn, "__name__", self.name)
        if kind == "cm":
            w = classmethod(wrapper)
        elif kind == "sm":
            w = staticmethod(wrapper)
        else:
            w = wrapper
        setattr(self.owner, self.name, w)
        for other in also:
            # second bindings created by "from .x import name"
            if getattr(other, self.name, None) is fn:
                setattr(other, self.name, wrapper)
        self.wrapper = wrapper
        return self


# ---------------------------------------------------------------------------
# CPython's own readers

_addr2line = ctypes.pythonapi.PyCode_Addr2Line
_addr2line.argtypes = [ctypes.py_object, ctypes.c_int]
_addr2line.restype = ctypes.c_int


def addr2line(code, offset):
    """Line CPython assigns to the code unit at byte offset (None = no line)."""
    r = _addr2line(code, offset)
    if r < 0 and IS310:
        return None       # 3.10: -1 means "no line"; before 3.10 the lnotab cannot express that
    return r


def line_lookup(code):
    """offset -> line CPython assigns (None = no line) as a callable.

    Small tables: PyCode_Addr2Line per query (the C reader).  Large tables (where the C reader's linear walk per
    query would make a scan quadratic): one pass of the interpreter's own Python-level reader (co_lines on 3.10,
    dis.findlinestarts before), spot-checked against PyCode_Addr2Line."""
    table = getattr(code, LINE_ATTR)
    if len(table) < 1200:
        return lambda off: addr2line(code, off)
    n = len(code.co_code)
    m = [None] * (n // 2 + 1)
    if IS310:
        for s_, e_, l_ in code.co_lines():
            for o in range(s_, min(e_, n), 2):
                m[o // 2] = l_
    else:
        starts = sorted(dis.findlinestarts(code))
        for i, (a, l) in enumerate(starts):
            end = starts[i + 1][0] if i + 1 < len(starts) else n
            for o in range(a, min(end, n), 2):
                m[o // 2] = l
        if starts and starts[0][0] > 0:
            for o in range(0, starts[0][0], 2):
                m[o // 2] = code.co_firstlineno
    # tie the fast path to the C reader
    step = max(2, (n // 97) & ~1)
    for o in list(range(0, n, step)) + [max(0, n - 2)]:
        if n and m[o // 2] != addr2line(code, o):
            count("reference_disagreement:fast_line_reader_vs_addr2line")
            return lambda off: addr2line(code, off)
    return lambda off: m[off // 2]


_constkey = ctypes.pythonapi._PyCode_ConstantKey
_constkey.argtypes = [ctypes.py_object]
_constkey.restype = ctypes.py_object


def cpython_constant_key(v):
    return _constkey(v)


def folded_instructions(code):
    """dis.get_instructions with EXTENDED_ARG prefixes folded.

    Returns list of dicts: start (offset of first prefix), offset (of the real
    opcode), opname, opcode, arg, argval, nunits, is_jump_target_start.
    """
    out = []
    start = None
    with no_int_limit():
        listing = list(dis.get_instructions(code))      # dis renders constants with repr()
    for ins in listing:
        if start is None:
            start = ins.offset
        if ins.opcode == dis.EXTENDED_ARG:
            continue
        out.append({
            "start": start, "offset": ins.offset, "opname": ins.opname,
            "opcode": ins.opcode, "arg": ins.arg, "argval": ins.argval,
            "nunits": (ins.offset - start) // 2 + 1,
        })
        start = None
    return out


def raw_units(code):
    b = code.co_code
    return [(b[i], b[i + 1]) for i in range(0, len(b), 2)]


def lines_by_start(code, folded=None):
    if folded is None:
        folded = folded_instructions(code)
    return [addr2line(code, f["start"]) for f in folded]


def colines_lookup(code):
    """3.10 only: offset -> line via co_lines() (None for no line)."""
    m = {}
    for s, e, l in code.co_lines():
        for o in range(s, e, 2):
            m[o] = l
    return m


# ---------------------------------------------------------------------------
# strict comparison of code objects (type- and bit-exact)

def const_fp(v, nan_ident=False):
    """Type-exact, bit-exact structural fingerprint of a constant."""
    t = type(v)
    if t is float:
        if nan_ident and v != v:
            return ("float", "nan")
        return ("float", struct.pack("<d", v))
    if t is complex:
        return ("complex", const_fp(v.real, nan_ident), const_fp(v.imag, nan_ident))
    if t is tuple:
        return ("tuple", tuple(const_fp(x, nan_ident) for x in v))
    if t is frozenset:
        return ("frozenset", tuple(sorted((const_fp(x, nan_ident) for x in v), key=srepr)))
    if t is CodeType:
        return ("code", code_fp(v, nan_ident))
    if t is str:
        return ("str", v.encode("utf-8", "surrogatepass"))
    if v is Ellipsis:
        return ("ellipsis",)
    return (t.__name__, v)


CODE_ATTRS = [
    "co_argcount", "co_kwonlyargcount", "co_nlocals", "co_stacksize", "co_flags",
    "co_code", "co_names", "co_varnames", "co_filename", "co_name", "co_firstlineno",
    "co_freevars", "co_cellvars",
]
if PY >= (3, 8):
    CODE_ATTRS.append("co_posonlyargcount")
LINE_ATTR = "co_linetable" if IS310 else "co_lnotab"
CODE_ATTRS.append(LINE_ATTR)


def code_fp(code, nan_ident=False):
    d = []
    for a in CODE_ATTRS:
        v = getattr(code, a)
        if isinstance(v, tuple):
            v = tuple((type(x).__name__, x) for x in v)
        else:
            v = (type(v).__name__, v)
        d.append((a, v))
    d.append(("co_consts", tuple(const_fp(c, nan_ident) for c in code.co_consts)))
    return tuple(d)


def strict_diff(a, b, path="", nan_ident=False, out=None, limit=8, pairs=None):
    """List of (path, attr, va, vb) differences between two code objects.

    pairs (optional list) receives (path, a_sub, b_sub, [attrs]) for every nested pair
    that differs in its own attributes.
    """
    if out is None:
        out = []
    own = []
    for attr in CODE_ATTRS:
        va, vb = getattr(a, attr), getattr(b, attr)
        same = type(va) is type(vb) and va == vb
        if same and isinstance(va, tuple):
            same = all(type(x) is type(y) for x, y in zip(va, vb))
        if not same:
            own.append(attr)
            if len(out) < limit:
                out.append((path, attr, short(va, 200), short(vb, 200)))
    ca, cb = a.co_consts, b.co_consts
    if len(ca) != len(cb):
        own.append("co_consts")
        out.append((path, "co_consts:len", len(ca), len(cb)))
    else:
        for i, (x, y) in enumerate(zip(ca, cb)):
            if isinstance(x, CodeType) and isinstance(y, CodeType):
                strict_diff(x, y, "%s/consts[%d]:%s" % (path, i, x.co_name), nan_ident, out, limit, pairs)
            elif const_fp(x, nan_ident) != const_fp(y, nan_ident):
                own.append("co_consts")
                if len(out) < limit:
                    out.append((path, "co_consts[%d]" % i, short(x, 200), short(y, 200)))
    if own and pairs is not None:
        pairs.append((path, a, b, own))
    return out


def iter_code(code, depth=0):
    """Pre-order walk of a code object and everything nested in its constants."""
    yield code, depth
    for c in code.co_consts:
        if isinstance(c, CodeType):
            for x in iter_code(c, depth + 1):
                yield x


def code_key(code):
    """Content key of one code object (not of its children)."""
    h = hashlib.md5()
    h.update(code.co_code)
    h.update(getattr(code, LINE_ATTR))
    h.update(repr((code.co_names, code.co_varnames, code.co_flags, code.co_name,
                   code.co_firstlineno, len(code.co_consts))).encode("utf-8", "surrogatepass"))
    return h.digest()


def code_brief(code):
    return {"name": code.co_name, "file": code.co_filename, "firstlineno": code.co_firstlineno,
            "ncode": len(code.co_code), "flags": code.co_flags}


# ---------------------------------------------------------------------------
# the repository under test

PROP = None   # set by worker.py
LIBNAME = "code_data"     # "vnd_pkg.code_data" in a vendored-copy worker


def use_vendored_copy(vdir=None):
    """Import the library under test as `vnd_pkg.code_data` (a vendored copy: a package directory holding a link to the
    repository's package) while a top-level `code_data` stays importable as well - the situation of an application that
    bundles the library next to an installed one.  The library's modules must only ever reach each other relatively."""
    global LIBNAME
    if vdir is None:
        import tempfile
        vdir = tempfile.mkdtemp(prefix="vendored-")
        os.mkdir(os.path.join(vdir, "vnd_pkg"))
        open(os.path.join(vdir, "vnd_pkg", "__init__.py"), "w").close()
        os.symlink(os.path.join(os.path.abspath(os.environ.get("VERIF_REPO", "/repo")), "code_data"), os.path.join(vdir, "vnd_pkg", "code_data"))
        os.environ["VERIF_VENDORED"] = vdir
        os.environ["PYTHONPATH"] = vdir + os.pathsep + os.environ.get("PYTHONPATH", "")
    if vdir not in sys.path:
        sys.path.insert(0, vdir)
    LIBNAME = "vnd_pkg.code_data"
    return vdir


if os.environ.get("VERIF_VENDORED"):
    use_vendored_copy(os.environ["VERIF_VENDORED"])


def lib(*names):
    """The package under test, or attributes / submodules of it (instead of `from code_data import ...`)."""
    import importlib
    pkg = importlib.import_module(LIBNAME)
    if not names:
        return pkg
    out = []
    for n in names:
        if n.startswith("_") and not hasattr(pkg, n):
            out.append(importlib.import_module(LIBNAME + "." + n))
        elif n.startswith("_") and type(getattr(pkg, n)).__name__ == "module":
            out.append(getattr(pkg, n))
        else:
            out.append(getattr(pkg, n))
    return out[0] if len(out) == 1 else out


def import_repo(json_only=False):
    try:
        code_data = lib()
        if not json_only:
            lib("_code_data", "_blocks", "_line_mapping", "_constants", "_flags_data", "_args", "_normalize", "_json_data")
    except BaseException as e:
        # no API call can succeed for any input in this process: every property that needs a result is refuted here
        violation(PROP or "?", "import", "the library cannot be imported in this interpreter (mode %s)" % (
            " ".join(violation_pyflags()) or "default"), {"k": "import", "id": "import code_data"},
            "%s: %s" % (type(e).__name__, short(e, 400)))
        raise
    here = os.path.realpath(os.path.dirname(code_data.__file__))
    want = os.path.realpath(os.path.join(os.environ.get("VERIF_REPO", "/repo"), "code_data"))
    if here != want:
        raise RuntimeError("code_data imported from %s, expected %s" % (here, want))
    if LIBNAME != "code_data":
        # the situation needs both copies to be importable; the top-level one must not be the one under test
        import importlib
        other = importlib.import_module("code_data")
        if other is code_data:
            raise RuntimeError("vendored copy and top-level copy are the same module object")
    return code_data


def json_transits(doc, text=None, big=200000):
    """The same JSON document after a trip through other serializers: members sorted (json.dumps(sort_keys=True), jq -S,
    Go, canonical JSON), members in reverse order, pretty-printed.  A JSON object is unordered and
    insignificant white space is free, so each of these is the same document."""
    if text is None:
        text = json.dumps(doc, allow_nan=False)
    yield "sorted members", json.loads(json.dumps(doc, sort_keys=True, allow_nan=False))
    if len(text) > big:
        return
    yield "reversed members", json.loads(text, object_pairs_hook=lambda pairs: dict(reversed(pairs)))
    yield "pretty-printed", json.loads(json.dumps(doc, indent=1, separators=(" ,", " : "), allow_nan=False))


def canon_json(doc):
    """Canonical text of a JSON document: sort_keys, and frozenset element lists sorted by their own dump
    (the listing order of frozenset elements is unordered by nature)."""
    def norm(x):
        if isinstance(x, dict):
            d = dict((k, norm(v)) for k, v in x.items())
            if set(d) == {"frozenset"} and isinstance(d["frozenset"], list):
                d["frozenset"] = sorted(d["frozenset"], key=lambda e: json.dumps(e, sort_keys=True))
            return d
        if isinstance(x, list):
            return [norm(v) for v in x]
        return x
    return json.dumps(norm(doc), sort_keys=True)
