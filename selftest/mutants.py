#!/usr/bin/python3
"""Self-test: apply small property-breaking edits to a scratch copy of /repo and require the quick check to fire.

  selftest/mutants.py [ID ...] [--only name] [--keep-going]
Each mutant: (name, [property ids expected to fire], file, old text, new text).
Scratch copies live under /var/tmp and are removed afterwards.
"""
import os, shutil, subprocess, sys, tempfile
HERE = os.path.dirname(os.path.abspath(__file__))
VERIF = os.path.dirname(HERE)

M = []
def mut(name, props, file, old, new):
    M.append((name, props, file, old, new))

# ---- C02 / C13 / C01 decoder mutants
mut("rel-jump-no-next-offset", ["C02", "C01"], "code_data/_blocks.py",
    "return Jump(next_offset + ((2 if _ATLEAST_310 else 1) * arg), True)",
    "return Jump(((2 if _ATLEAST_310 else 1) * arg), True)")
mut("cell-free-split-le", ["C01"], "code_data/_blocks.py",
    "is_cellvar = arg < len(found_cellvars)", "is_cellvar = arg <= len(found_cellvars)")
mut("line-from-next-unit", ["C02"], "code_data/_blocks.py",
    "line_number=line_mapping.offset_to_line.pop(offset),",
    "line_number=line_mapping.offset_to_line.get(offset + 2, line_mapping.offset_to_line.pop(offset)),")
mut("block-after-every-jump", ["C13"], "code_data/_blocks.py",
    "            targets_set.add(processed_arg.target)\n",
    "            targets_set.add(processed_arg.target)\n            targets_set.add(next_offset)\n")
mut("drop-additional-line", ["C01"], "code_data/_code_data.py",
    "_additional_line=next_line,", "_additional_line=None,")
mut("no-n-args-override", ["C01"], "code_data/_blocks.py",
    "n_args_override = n_args if n_args > 1 else None", "n_args_override = None")
mut("stacksize-min1", ["C01"], "code_data/_code_data.py",
    "stacksize=code.co_stacksize,", "stacksize=max(code.co_stacksize, 1),")
mut("forget-future-annotations", ["C01"], "code_data/_code_data.py",
    "future_annotations=annotations,", "future_annotations=False,")
mut("expand-max-bytecode-254", ["C01", "C10"], "code_data/_line_mapping.py",
    "MAX_BYTECODE = 254 if is_linetable else 255", "MAX_BYTECODE = 254 if is_linetable else 254")

# ---- C14
mut("iter-ignores-additional-args", ["C14"], "code_data/__init__.py",
    "        args.extend(self._additional_args)\n", "")
mut("iter-yields-per-instruction", ["C14"], "code_data/__init__.py",
    "                if key not in seen:\n", "                if True:\n")
mut("all-code-data-not-recursive", ["C14"], "code_data/__init__.py",
    "            yield from code_data.all_code_data()", "            yield code_data")
mut("all-code-data-children-first", ["C14"], "code_data/__init__.py",
    "        yield self\n        for code_data in self:\n            yield from code_data.all_code_data()",
    "        for code_data in self:\n            yield from code_data.all_code_data()\n        yield self")

# ---- C04
mut("varargs-before-kwonly", ["C04"], "code_data/_args.py",
    """    keyword_only, varnames = (
        varnames[:kwonlyargcount],
        varnames[kwonlyargcount:],
    )
    if "VARARGS" in flags_data:
        var_positional, varnames = varnames[0], varnames[1:]
        flags_data.remove("VARARGS")
    else:
        var_positional = None
""", """    if "VARARGS" in flags_data:
        var_positional, varnames = varnames[kwonlyargcount], varnames[:kwonlyargcount] + varnames[kwonlyargcount + 1:]
        flags_data.remove("VARARGS")
    else:
        var_positional = None
    keyword_only, varnames = (
        varnames[:kwonlyargcount][::-1],
        varnames[kwonlyargcount:],
    )
""")
mut("docstring-from-last-const", ["C04"], "code_data/_code_data.py",
    "constants[0] if constants and isinstance(constants[0], str) else None",
    "constants[-1] if constants and isinstance(constants[-1], str) else None")
mut("coroutine-as-generator", ["C04"], "code_data/_code_data.py",
    "        fn_tp = fn_tp_flags.pop() if fn_tp_flags else None\n        if fn_tp:\n            flags_data.remove(fn_tp)\n",
    "        fn_tp = fn_tp_flags.pop() if fn_tp_flags else None\n        if fn_tp:\n            flags_data.remove(fn_tp)\n        if fn_tp == 'COROUTINE' and code.co_argcount == 3:\n            fn_tp = 'GENERATOR'\n")
mut("len-counts-positional-only", ["C04"], "code_data/__init__.py",
    "        return len(self.parameters)", "        return len(self.positional_only) + len(self.positional_or_keyword) + len(self.keyword_only)")
mut("posonly-from-end", ["C04"], "code_data/_args.py",
    """    positional_only, varnames = (
        varnames[:posonlyargcount],
        varnames[posonlyargcount:],
    )
    pos_or_kw_count = argcount - posonlyargcount
    positional_or_keyword, varnames = (
        varnames[:pos_or_kw_count],
        varnames[pos_or_kw_count:],
    )""", """    pos_or_kw_count = argcount - posonlyargcount
    positional_or_keyword, varnames = (
        varnames[:pos_or_kw_count],
        varnames[pos_or_kw_count:],
    )
    positional_only, varnames = (
        varnames[:posonlyargcount],
        varnames[posonlyargcount:],
    )""")

# ---- C09
mut("override-always", ["C09"], "code_data/_blocks.py",
    "        wrong_position = self._index_to_order[index] != index or first_index != index",
    "        wrong_position = True")
mut("rank-is-table-size", ["C09"], "code_data/_blocks.py",
    "            self._index_to_order[index] = len(self._index_to_order)",
    "            self._index_to_order[index] = len(self._args)")
mut("params-not-preseeded", ["C09"], "code_data/_blocks.py",
    "found_varnames = ToArgs(varnames, {i: i for i in range(len(args.parameters))})",
    "found_varnames = ToArgs(varnames)")
mut("additional-args-all", ["C09"], "code_data/_blocks.py",
    "            if i not in self._index_to_order:\n                yield self.found_index(i)",
    "            if i not in self._index_to_order or i == 0:\n                yield self.found_index(i)")
mut("override-second-use-only", ["C09"], "code_data/_blocks.py",
    "        if index not in self._index_to_order:\n            self._index_to_order[index] = len(self._index_to_order)\n",
    "        if index not in self._index_to_order:\n            self._index_to_order[index] = len(self._index_to_order)\n        elif index > 2:\n            return self._args[index], index\n")

# ---- C11
mut("from-flags-skips-nested", ["C11"], "code_data/_flags_data.py",
    "    for f in flags_data:\n        flags |= getattr(_CodeFlag, f)",
    "    for f in flags_data:\n        if f != 'NESTED':\n            flags |= getattr(_CodeFlag, f)")
mut("forget-annotations-on-encode", ["C11", "C01"], "code_data/_code_data.py",
    "    if code_data.future_annotations:\n        flags_data |= {\"annotations\"}\n", "")
mut("enum-misses-iterable-coroutine", ["C11"], "code_data/_flags_data.py",
    "[(name, i) for i, name in dis.COMPILER_FLAG_NAMES.items()]",
    "[(name, i) for i, name in dis.COMPILER_FLAG_NAMES.items() if name != 'ITERABLE_COROUTINE']")
mut("ignore-uncovered-bits", ["C11"], "code_data/_flags_data.py",
    "    if not_covered:\n", "    if not_covered and not_covered < 0x400:\n")
mut("kwonly-from-posonly", ["C11", "C01"], "code_data/_args.py",
    "        kwonlyargcount=len(args.keyword_only),", "        kwonlyargcount=len(args.keyword_only) if len(args.keyword_only) != 2 else 1,")
mut("nlocals-unchecked", ["C11"], "code_data/_code_data.py",
    "    if code.co_nlocals != len(code.co_varnames):", "    if code.co_nlocals < len(code.co_varnames):")

# ---- C07
mut("max-integer-2-63", ["C07"], "code_data/_json_data.py",
    "MIN_INTEGER, MAX_INTEGER = (-(2**53) + 1, (2**53) - 1)", "MIN_INTEGER, MAX_INTEGER = (-(2**63) + 1, (2**63) - 1)")
mut("no-isinf-branch", ["C07"], "code_data/_json_data.py",
    "        if isinf(value):\n            return {\"float\": \"inf\" if value > 0 else \"-inf\"}\n", "")
mut("bytes-as-latin1", ["C07"], "code_data/_json_data.py",
    "        return {\"bytes\": b64encode(value).decode(\"ascii\")}", "        return {\"bytes\": b64encode(value.strip()).decode(\"ascii\")}")
mut("frozenset-as-list", ["C07"], "code_data/_json_data.py",
    "        return {\"frozenset\": list(map(value_to_json, value))}", "        return list(map(value_to_json, value))")
mut("neg-zero-collapsed", ["C07"], "code_data/_json_data.py",
    "        if isnan(value):\n            return {\"float\": \"nan\"}\n        return value",
    "        if isnan(value):\n            return {\"float\": \"nan\"}\n        if value == 0:\n            return 0.0\n        return value")
mut("string-wrapper-not-parsed-docstring", ["C07"], "code_data/_json_data.py",
    "        if \"docstring\" in tp:\n            tp[\"docstring\"] = string_from_json(tp[\"docstring\"])\n", "")
mut("schema-line-number-string", ["C07"], "code_data/__init__.py",
    "            \"line_number\": {\"type\": \"integer\"},", "            \"line_number\": {\"type\": \"string\"},")
mut("drop-default-false-field", ["C07"], "code_data/_json_data.py",
    "            if not field_is_default(f, value)", "            if not field_is_default(f, value) and f.name != '_line_offsets_override'")

# ---- C12
mut("loader-mutates-type-dict", ["C12"], "code_data/_json_data.py",
    "        tp = copy(value[\"type\"])", "        tp = value[\"type\"]")
mut("loader-pops-keys", ["C12"], "code_data/_json_data.py",
    "    if \"arg\" in value:\n        value = copy(value)\n        value[\"arg\"] = arg_from_json(value[\"arg\"])",
    "    if \"arg\" in value:\n        value[\"arg\"] = arg_from_json(value[\"arg\"])")
mut("to-json-memoised", ["C12"], "code_data/_json_data.py",
    "def code_data_to_json(code_data: CodeData) -> dict:\n    res = value_to_json(code_data)",
    "_memo: dict = {}\n\n\ndef code_data_to_json(code_data: CodeData) -> dict:\n    if id(code_data) in _memo:\n        return _memo[id(code_data)][1]\n    res = value_to_json(code_data)\n    _memo[id(code_data)] = (code_data, res)")
mut("normalize-cached-by-name", ["C05"], "code_data/_normalize.py",
    "def normalize(x: T) -> T:\n",
    "_cache: dict = {}\n\n\ndef normalize(x: T) -> T:\n    if isinstance(x, CodeData) and x.name in _cache:\n        return _cache[x.name]\n    res = _normalize(x)\n    if isinstance(x, CodeData) and x.name == '<module>':\n        _cache[x.name] = res\n    return res\n\n\ndef _normalize(x: T) -> T:\n")
mut("loader-keeps-list-reference", ["C12", "C08"], "code_data/_json_data.py",
    "    return {k: tuple(v) if isinstance(v, list) else v for k, v in d.items()}",
    "    return {k: (v if k == '_line_offsets_override' else tuple(v)) if isinstance(v, list) else v for k, v in d.items()}")

# ---- C08
mut("constant-eq-falls-back-to-eq", ["C08"], "code_data/__init__.py",
    "        return constant_key(self.constant) == constant_key(__o.constant)\n\n    def __hash__",
    "        return self.constant == __o.constant or constant_key(self.constant) == constant_key(__o.constant)\n\n    def __hash__")
mut("drop-is-neg-zero", ["C08", "C03"], "code_data/_constants.py",
    "        return (type(value), replace_nan(value), is_neg_zero(value))", "        return (type(value), replace_nan(value))")
mut("constant-hash-raw-value", ["C08"], "code_data/__init__.py",
    "        return hash((constant_key(self.constant), self._index_override))", "        return hash((self.constant, self._index_override))")
mut("jump-eq-false", ["C08"], "code_data/__init__.py",
    "@dataclass(frozen=True)\nclass Jump(DataclassHideDefault):", "@dataclass(frozen=True, eq=False)\nclass Jump(DataclassHideDefault):")
mut("instruction-not-frozen", ["C08"], "code_data/__init__.py",
    "@dataclass(frozen=True)\nclass Name(DataclassHideDefault):", "@dataclass(unsafe_hash=True)\nclass Name(DataclassHideDefault):")
mut("complex-key-ignores-imag-sign", ["C08", "C03"], "code_data/_constants.py",
    "            is_neg_zero(value.real),\n            is_neg_zero(value.imag),", "            is_neg_zero(value.real),")
mut("frozenset-key-as-tuple", ["C08"], "code_data/_constants.py",
    "        return frozenset(map(constant_key, value))", "        return tuple(map(constant_key, value))")

# ---- C15
mut("normalize-version-guarded", ["C15"], "code_data/_normalize.py",
    "    if isinstance(x, NoArg):\n        return cast(T, NoArg())",
    "    if isinstance(x, NoArg):\n        import sys\n        return cast(T, NoArg() if sys.version_info < (3, 11) else x)")
mut("loader-uses-39-api", ["C15"], "code_data/_json_data.py",
    "        if \"bytes\" in value:\n            return b64decode(value[\"bytes\"])",
    "        if \"bytes\" in value:\n            return b64decode(value[\"bytes\"].removeprefix(\"=\"))")
mut("dumper-version-dependent", ["C15"], "code_data/_json_data.py",
    "    if isinstance(value, bytes):\n        return {\"bytes\": b64encode(value).decode(\"ascii\")}",
    "    if isinstance(value, bytes):\n        import sys\n        if sys.version_info >= (3, 12) and not value:\n            return {\"bytes\": \"====\"}\n        return {\"bytes\": b64encode(value).decode(\"ascii\")}")
mut("surrogate-string-repr", ["C15"], "code_data/_json_data.py",
    "            return {\"string\": ascii(value)}", "            return {\"string\": repr(value)}")
mut("int-string-threshold-by-version", ["C15"], "code_data/_json_data.py",
    "        if value < MIN_INTEGER or value > MAX_INTEGER:",
    "        import sys\n        if value < MIN_INTEGER or value > (MAX_INTEGER if sys.version_info < (3, 9) else MAX_INTEGER + 2):")

# ---- C16
mut("cli-default-unnormalized", ["C16"], "code_data/_cli.py",
    "    if not no_normalize:\n        code_data = normalize(code_data)", "    if no_normalize:\n        code_data = normalize(code_data)")
mut("cli-json-of-unnormalized", ["C16"], "code_data/_cli.py",
    "    code_data = CodeData.from_code(code)\n    if not no_normalize:\n        code_data = normalize(code_data)",
    "    code_data = CodeData.from_code(code)\n    raw_code_data = code_data\n    if not no_normalize:\n        code_data = normalize(code_data)\n    CodeData.to_json_data = lambda self, _f=CodeData.to_json_data: _f(raw_code_data)")
mut("cli-dis-after-original", ["C16"], "code_data/_cli.py",
    "        res = code_data.to_code()\n", "        res = code_data.to_code() if len(code.co_consts) < 3 else compile('pass', '<string>', 'exec')\n")
mut("cli-source-count-ge-1", ["C16"], "code_data/_cli.py",
    "if x is not None]) != 1:", "if x is not None]) < 1:")
mut("cli-read-text", ["C16"], "code_data/_cli.py",
    "        with tokenize.open(file) as f:\n            source = f.read()", "        source = file.read_text()")
mut("cli-truthiness", ["C16"], "code_data/_cli.py",
    "    if len([x for x in [file, cmd, mod, eval_] if x is not None]) != 1:", "    if len(list(filter(None, [file, cmd, mod, eval_]))) != 1:")
mut("cli-eval-wins-over-file", ["C16"], "code_data/_cli.py",
    "        source = cmd.replace(\"\\\\n\", \"\\n\")", "        source = cmd.replace(\"\\\\n\", \"\\n\").rstrip()")

# ---- C05
mut("normalize-drops-line-number", ["C05"], "code_data/_normalize.py",
    "                _n_args_override=None,\n", "                _n_args_override=None,\n                line_number=x.line_number if x.name != 'POP_TOP' else None,\n")
mut("normalize-clears-docstring", ["C05"], "code_data/_normalize.py",
    "                _nested=False,\n", "                _nested=False,\n                type=replace(x.type, docstring=None) if x.type is not None and x.name == 'f' else x.type,\n")
mut("normalize-resets-jump-relative", ["C05"], "code_data/_normalize.py",
    "    if isinstance(x, NoArg):", "    if type(x).__name__ == 'Jump' and x.relative and x.target == 3:\n        return cast(T, replace(x, relative=False))\n    if isinstance(x, NoArg):")
mut("encoder-pins-docstring-none", ["C05", "C03"], "code_data/_blocks.py",
    "        if docstring_is_none and first_const and arg_is_string and no_override:\n            constants[0] = None\n", "")
mut("normalize-reverses-freevars", ["C05"], "code_data/_normalize.py",
    "                _nested=False,\n", "                _nested=False,\n                freevars=tuple(reversed(x.freevars)),\n")
mut("normalize-merges-true-and-1", ["C05"], "code_data/_normalize.py",
    "            replace(x, _index_override=None, constant=normalize(x.constant)),",
    "            replace(x, _index_override=None, constant=1 if x.constant is True else normalize(x.constant)),")
mut("normalize-drops-last-block-line", ["C05"], "code_data/_normalize.py",
    "    if isinstance(x, tuple):\n        return cast(T, tuple(map(normalize, x)))",
    "    if isinstance(x, tuple):\n        if len(x) > 40 and isinstance(x[0], Instruction):\n            return cast(T, tuple(map(normalize, x[:-1])) + (replace(normalize(x[-1]), line_number=normalize(x[-2]).line_number),))\n        return cast(T, tuple(map(normalize, x)))")

# ---- C10
# (collapse ">=127" -> ">127" is an equivalent mutant for C10: the unmerged piece round-trips as a zero-width entry)
mut("linetable-min-line-128", ["C10"], "code_data/_line_mapping.py",
    "    MIN_LINE = -127 if is_linetable else -128", "    MIN_LINE = -128 if is_linetable else -128")
mut("linetable-max-bytecode-255", ["C10"], "code_data/_line_mapping.py",
    "    MAX_BYTECODE = 254 if is_linetable else 255", "    MAX_BYTECODE = 255 if is_linetable else 255")
mut("drop-emit-last-one", ["C10"], "code_data/_line_mapping.py",
    "        if line_offset != 0 or bytecode_offset != 0 or not emitted_extra:", "        if line_offset != 0 or bytecode_offset != 0:")
mut("final-linetable-entry-off-by-2", ["C10", "C01"], "code_data/_line_mapping.py",
    "                    bytecode_offset=bytecode_offset\n                    + 2\n", "                    bytecode_offset=bytecode_offset\n                    + 4\n")
mut("noline-continuation-zero", ["C10"], "code_data/_line_mapping.py",
    "                if is_linetable and line_offset is not None:\n                    line_offset = 0", "                if is_linetable:\n                    line_offset = 0")
mut("mixed-sign-merge", ["C10"], "code_data/_line_mapping.py",
    "                or (item.line_offset > 0) == (prev_item.line_offset > 0)", "                or True")
mut("signed-byte-off", ["C10"], "code_data/_line_mapping.py",
    "                line_offset=int.from_bytes([b[i + 1]], \"big\", signed=True),", "                line_offset=b[i + 1] if b[i + 1] < 129 else b[i + 1] - 256,")

# ---- C03
mut("instrsize-boundary-lt", ["C03"], "code_data/_blocks.py",
    "    return 1 if arg <= 0xFF else 2 if arg <= 0xFFFF else 3 if arg <= 0xFFFFFF else 4",
    "    return 1 if arg <= 0x100 else 2 if arg <= 0xFFFF else 3 if arg <= 0xFFFFFF else 4")
mut("relaxation-single-sweep", ["C03"], "code_data/_blocks.py",
    "                    if n_instructions != _n_args(instruction, new_arg_value):\n                        changed_instruction_lengths = True",
    "                    if n_instructions != _n_args(instruction, new_arg_value):\n                        changed_instruction_lengths = len(args) < 200")
mut("constants-keyed-by-hash", ["C03"], "code_data/_blocks.py",
    "    constants = FromArgs[ConstantValue](_hash_fn=constant_key)", "    constants = FromArgs[ConstantValue]()")
mut("no-none-pad-before-first-str", ["C03", "C05"], "code_data/_blocks.py",
    "        if docstring_is_none and first_const and arg_is_string and no_override:", "        if False:")
mut("freevar-index-without-cells", ["C03", "C01"], "code_data/_blocks.py",
    "                args[block_index, instruction_index] += len(cellvars)", "                args[block_index, instruction_index] += 0")
mut("absolute-target-previous-block", ["C03"], "code_data/_blocks.py",
    "                        new_arg_value = multiplier * target_instruction_offset",
    "                        new_arg_value = multiplier * (target_instruction_offset if arg.target != 7 else block_index_to_instruction_offset[6])")
mut("gaps-not-checked", ["C03"], "code_data/_blocks.py",
    "            min(self._i_to_arg) != 0 or max(self._i_to_arg) != len(self._i_to_arg) - 1", "            min(self._i_to_arg) != 0")
mut("n-args-override-wins", ["C03"], "code_data/_blocks.py",
    "    return max(instruction._n_args_override or 0, _instrsize(arg))", "    return instruction._n_args_override or _instrsize(arg)")
mut("none-line-typeerror", ["C03"], "code_data/_line_mapping.py",
    "        if line_number is None:\n            line_number = last_line_number\n", "")
mut("collision-assert-eq", ["C03"], "code_data/_blocks.py",
    "            if self._hash_fn(self._i_to_arg[i]) != self._hash_fn(arg):", "            if not (self._i_to_arg[i] == arg or self._i_to_arg[i] != self._i_to_arg[i]):")
# reversal of fix cae8684: the validity checks as assert statements again (vanish in the python -O twin)
mut("validity-checks-as-asserts", ["C11"], "code_data/_code_data.py",
    "        if args:\n            raise AssertionError(\"if this isn't a function, it shouldn't have args\")",
    "        assert not args, \"if this isn't a function, it shouldn't have args\"")
# the case fix 04444f0 repaired: 256 or more cell variables together with a free variable (w4:cells-N-free-jumps)
mut("freevar-shift-wraps-at-256-cells", ["C01"], "code_data/_blocks.py",
    "                args[block_index, instruction_index] += len(cellvars)", "                args[block_index, instruction_index] += len(cellvars) % 256")
# reversal of fix af6335e: bytes constants are their own key (BytesWarning in the -b twin)
mut("bytes-own-key", ["C01"], "code_data/_constants.py",
    "    if isinstance(value, (str, type(None), type(...))):\n        return value", "    if isinstance(value, (str, type(None), bytes, type(...))):\n        return value")
# reversal of fix 04a4a89: absolute import in the command line module (vendored-copy twin)
mut("cli-absolute-import", ["C16"], "code_data/_cli.py",
    "from ._normalize import normalize", "from code_data._normalize import normalize")
mut("relaxation-never-stops", ["C03"], "code_data/_blocks.py",
    "                    if n_instructions != _n_args(instruction, new_arg_value):\n                        changed_instruction_lengths = True",
    "                    if n_instructions != _n_args(instruction, new_arg_value) or (len(args) == 77 and len(blocks) == 5):\n                        changed_instruction_lengths = True")
# ---- C06
mut("normalize-keeps-nested", ["C06"], "code_data/_normalize.py", "                _nested=False,\n", "")
mut("normalize-keeps-noarg", ["C06"], "code_data/_normalize.py", "        return cast(T, NoArg())", "        return cast(T, x)")
mut("normalize-keeps-n-args-override", ["C06"], "code_data/_normalize.py", "                _n_args_override=None,\n", "")
mut("normalize-keeps-cellvar-override", ["C06"], "code_data/_normalize.py",
    "    if isinstance(x, (Name, Varname, Cellvar)):", "    if isinstance(x, (Name, Varname)):")
mut("normalize-keeps-additional-args", ["C06"], "code_data/_normalize.py", "                _additional_args=(),\n", "")
mut("json-drops-relative-false-after-normalize", ["C06", "C07"], "code_data/_json_data.py",
    "    if \"target\" in value:\n        return Jump(**value)", "    if \"target\" in value:\n        return Jump(value[\"target\"], value.get(\"relative\", value[\"target\"] == 3))")
mut("normalize-not-idempotent-on-lines", ["C06"], "code_data/_normalize.py",
    "                _line_offsets_override=tuple(),\n", "                _line_offsets_override=tuple() if x._line_offsets_override else (0,) if x.name == 'NOP' else tuple(),\n")


def run_one(m, props_filter):
    name, props, file, old, new = m
    props = [p for p in props if not props_filter or p in props_filter]
    if not props:
        return None
    tmp = tempfile.mkdtemp(prefix="mut-", dir="/var/tmp")
    try:
        dst = os.path.join(tmp, "repo")
        shutil.copytree("/repo", dst, ignore=shutil.ignore_patterns(".git", "__pycache__", "docs", "*.pyc"))
        p = os.path.join(dst, file)
        s = open(p).read()
        if s.count(old) != 1:
            return [(name, "-", "PATCH DID NOT APPLY (%d matches)" % s.count(old))]
        open(p, "w").write(s.replace(old, new))
        out = []
        for prop in props:
            env = dict(os.environ, VERIF_REPO=dst, VERIF_EVIDENCE_DIR=os.path.join(tmp, "ev"), VERIF_REPLAY_DIR=os.path.join(tmp, "rp"))
            r = subprocess.run(["/usr/bin/python3", os.path.join(VERIF, "vcheck.py"), "check", prop, "--tier", "quick"],
                               env=env, cwd=VERIF, stdout=subprocess.PIPE, stderr=subprocess.STDOUT)
            txt = r.stdout.decode("utf-8", "replace")
            fired = r.returncode == 1 and "VIOLATION property=%s" % prop in txt
            first = [l for l in txt.splitlines() if "monitor=" in l][:1]
            out.append((name, prop, "CAUGHT" if fired else "MISSED rc=%d" % r.returncode, first[0].strip() if first else ""))
        return out
    finally:
        shutil.rmtree(tmp, ignore_errors=True)


def main():
    args = sys.argv[1:]
    only = None
    if "--only" in args:
        only = args[args.index("--only") + 1]
        args = [a for a in args if a not in ("--only", only)]
    props_filter = set(a for a in args if a.startswith("C"))
    import concurrent.futures
    todo = [m for m in M if not only or m[0] == only]
    missed = 0
    with concurrent.futures.ThreadPoolExecutor(max_workers=3) as ex:
        for res in ex.map(lambda m: run_one(m, props_filter), todo):
            for row in res or []:
                print("  ".join(str(x) for x in row))
                if "CAUGHT" not in row[2]:
                    missed += 1
    print("missed:", missed)
    return 1 if missed else 0

if __name__ == "__main__":
    sys.exit(main())
