#!/usr/bin/python3
"""Self-test: apply small property-breaking edits to a scratch copy of /repo and require the quick check to fire.

  selftest/mutants.py [ID ...] [--only name] [--keep-going]
Each mutant: (name, [property ids expected to fire], file, old text, new text).
Scratch copies live under /var/tmp and are removed afterwards.
"""
import os, shutil, subprocess, sys, tempfile
HERE = os.path.dirname(os.path.abspath(__file__))
VERIF = os.path.dirname(HERE)

M = []
def mut(name, props, file, old, new):
    M.append((name, props, file, old, new))

# ---- C02 / C13 / C01 decoder mutants
mut("rel-jump-no-next-offset", ["C02", "C01"], "code_data/_blocks.py",
    "return Jump(next_offset + ((2 if _ATLEAST_310 else 1) * arg), True)",
    "return Jump(((2 if _ATLEAST_310 else 1) * arg), True)")
mut("cell-free-split-le", ["C01"], "code_data/_blocks.py",
    "is_cellvar = arg < len(found_cellvars)", "is_cellvar = arg <= len(found_cellvars)")
mut("line-from-next-unit", ["C02"], "code_data/_blocks.py",
    "line_number=line_mapping.offset_to_line.pop(offset),",
    "line_number=line_mapping.offset_to_line.get(offset + 2, line_mapping.offset_to_line.pop(offset)),")
mut("block-after-every-jump", ["C13"], "code_data/_blocks.py",
    "            targets_set.add(processed_arg.target)\n",
    "            targets_set.add(processed_arg.target)\n            targets_set.add(next_offset)\n")
mut("drop-additional-line", ["C01"], "code_data/_code_data.py",
    "_additional_line=next_line,", "_additional_line=None,")
mut("no-n-args-override", ["C01"], "code_data/_blocks.py",
    "n_args_override = n_args if n_args > 1 else None", "n_args_override = None")
mut("stacksize-min1", ["C01"], "code_data/_code_data.py",
    "stacksize=code.co_stacksize,", "stacksize=max(code.co_stacksize, 1),")
mut("forget-future-annotations", ["C01"], "code_data/_code_data.py",
    "future_annotations=annotations,", "future_annotations=False,")
mut("expand-max-bytecode-254", ["C01", "C10"], "code_data/_line_mapping.py",
    "MAX_BYTECODE = 254 if is_linetable else 255", "MAX_BYTECODE = 254 if is_linetable else 254")


def run_one(m, props_filter):
    name, props, file, old, new = m
    props = [p for p in props if not props_filter or p in props_filter]
    if not props:
        return None
    tmp = tempfile.mkdtemp(prefix="mut-", dir="/var/tmp")
    try:
        dst = os.path.join(tmp, "repo")
        shutil.copytree("/repo", dst, ignore=shutil.ignore_patterns(".git", "__pycache__", "docs", "*.pyc"))
        p = os.path.join(dst, file)
        s = open(p).read()
        if s.count(old) != 1:
            return [(name, "-", "PATCH DID NOT APPLY (%d matches)" % s.count(old))]
        open(p, "w").write(s.replace(old, new))
        out = []
        for prop in props:
            env = dict(os.environ, VERIF_REPO=dst, VERIF_EVIDENCE_DIR=os.path.join(tmp, "ev"), VERIF_REPLAY_DIR=os.path.join(tmp, "rp"))
            r = subprocess.run(["/usr/bin/python3", os.path.join(VERIF, "vcheck.py"), "check", prop, "--tier", "quick"],
                               env=env, cwd=VERIF, stdout=subprocess.PIPE, stderr=subprocess.STDOUT)
            txt = r.stdout.decode("utf-8", "replace")
            fired = r.returncode == 1 and "VIOLATION property=%s" % prop in txt
            first = [l for l in txt.splitlines() if "monitor=" in l][:1]
            out.append((name, prop, "CAUGHT" if fired else "MISSED rc=%d" % r.returncode, first[0].strip() if first else ""))
        return out
    finally:
        shutil.rmtree(tmp, ignore_errors=True)


def main():
    args = sys.argv[1:]
    only = None
    if "--only" in args:
        only = args[args.index("--only") + 1]
        args = [a for a in args if a not in ("--only", only)]
    props_filter = set(a for a in args if a.startswith("C"))
    import concurrent.futures
    todo = [m for m in M if not only or m[0] == only]
    missed = 0
    with concurrent.futures.ThreadPoolExecutor(max_workers=3) as ex:
        for res in ex.map(lambda m: run_one(m, props_filter), todo):
            for row in res or []:
                print("  ".join(str(x) for x in row))
                if "CAUGHT" not in row[2]:
                    missed += 1
    print("missed:", missed)
    return 1 if missed else 0

if __name__ == "__main__":
    sys.exit(main())
