#!/usr/bin/python3
"""Ingest and evaluate changes written by independent sub-agents.

  seeded.py ingest <name> <outdir> <PROP>      copy patch.diff/demo.py/README.txt into /verif/seeded/<name>/
  seeded.py table                               regenerate the table in DESIGN.md from the meta.json files
  seeded.py run [name ...] [--checks C01,C05]  apply each patch to a scratch worktree of /repo HEAD, confirm
        (a) the 30 baseline tests still pass, (b) the demo fails with the change and passes without it,
        then run the property's quick check (and any --checks) with VERIF_REPO=<scratch>; writes meta.json.
Scratch worktrees live under /var/tmp and are removed afterwards.  Nothing is ever applied to /repo itself.
"""
import json, os, shutil, subprocess, sys, tempfile, glob
HERE = os.path.dirname(os.path.abspath(__file__))
VERIF = os.path.dirname(HERE)
SEEDED = os.path.join(VERIF, "seeded")
PY = {"3.7": "/root/.pyenv/versions/3.7.16/bin/python3", "3.8": "/root/.pyenv/versions/3.8.18/bin/python3",
      "3.9": "/root/.pyenv/versions/3.9.18/bin/python3", "3.10": "/root/.pyenv/versions/3.10.13/bin/python3"}
SHIM = os.path.join(VERIF, "harness", "shim")


def sh(cmd, **kw):
    return subprocess.run(cmd, stdout=subprocess.PIPE, stderr=subprocess.STDOUT, **kw)


def ingest(name, outdir, prop):
    d = os.path.join(SEEDED, name)
    os.makedirs(d, exist_ok=True)
    for f in ("patch.diff", "demo.py", "README.txt"):
        shutil.copy(os.path.join(outdir, f), os.path.join(d, f))
    meta = {"property": prop, "name": name}
    json.dump(meta, open(os.path.join(d, "meta.json"), "w"), indent=1)
    print("ingested", d)


def demo(repo, d):
    out = {}
    for v, py in PY.items():
        env = {"PATH": "/usr/bin:/bin", "PYTHONPATH": repo + os.pathsep + SHIM + os.pathsep + "/tmp/seedshim", "PYTHONDONTWRITEBYTECODE": "1",
               "PYTHONHASHSEED": "0", "HOME": "/var/tmp"}
        try:
            p = sh([py, os.path.join(d, "demo.py")], env=env, cwd=repo, timeout=600)
            out[v] = p.returncode
        except subprocess.TimeoutExpired:
            out[v] = "timeout"
    return out


def run_one(name, extra_checks):
    d = os.path.join(SEEDED, name)
    meta = json.load(open(os.path.join(d, "meta.json")))
    tmp = tempfile.mkdtemp(prefix="seeded-", dir="/var/tmp")
    wt = os.path.join(tmp, "repo")
    try:
        sh(["git", "-C", "/repo", "worktree", "add", "--detach", wt, "HEAD"])
        clean = demo(wt, d)
        ap = sh(["git", "-C", wt, "apply", os.path.join(d, "patch.diff")])
        if ap.returncode != 0:
            # /repo moved on (a later fix: commit touched the same lines): try a three-way merge against the blobs the patch names
            sh(["git", "-C", wt, "checkout", "--", "."])
            ap3 = sh(["git", "-C", wt, "apply", "--3way", os.path.join(d, "patch.diff")])
            if ap3.returncode == 0:
                sh(["git", "-C", wt, "reset", "-q"])
                newp = sh(["git", "-C", wt, "diff"]).stdout
                if newp.strip():
                    with open(os.path.join(d, "patch.diff"), "wb") as f:
                        f.write(newp)
                    meta["rebased_onto"] = sh(["git", "-C", "/repo", "rev-parse", "--short", "HEAD"]).stdout.decode().strip()
                    ap = ap3
            else:
                sh(["git", "-C", wt, "reset", "-q", "--hard", "HEAD"])
        if ap.returncode != 0:
            meta["applies"] = False
            meta["apply_error"] = ap.stdout.decode()[-500:]
            print(name, "PATCH DOES NOT APPLY to current /repo HEAD")
        else:
            meta["applies"] = True
            t = sh(["/venv/bin/python", "-m", "pytest", "-q", "-p", "no:cacheprovider", "code_data/_line_mapping_test.py", "code_data/_flags_data_test.py"], cwd=wt)
            meta["baseline_tests"] = t.stdout.decode().strip().splitlines()[-1]
            shutil.rmtree(os.path.join(wt, ".pytest_cache"), ignore_errors=True)
            meta["demo_without_change_exit"] = clean
            meta["demo_with_change_exit"] = demo(wt, d)
            checks = [meta["property"]] + [c for c in extra_checks if c != meta["property"]]
            res = meta.setdefault("checks", {})
            for c in checks:
                env = dict(os.environ, VERIF_REPO=wt, VERIF_EVIDENCE_DIR=os.path.join(tmp, "ev"), VERIF_REPLAY_DIR=os.path.join(tmp, "rp"))
                r = sh(["/usr/bin/python3", os.path.join(VERIF, "vcheck.py"), "check", c, "--tier", "quick"], env=env, cwd=VERIF)
                txt = r.stdout.decode("utf-8", "replace")
                first = [l.strip() for l in txt.splitlines() if "monitor=" in l][:1]
                res[c] = {"exit": r.returncode, "caught": r.returncode == 1 and ("VIOLATION property=%s" % c) in txt,
                          "first_report": first[0][:300] if first else ""}
                print(name, c, "CAUGHT" if res[c]["caught"] else "MISSED rc=%d" % r.returncode, first[0][:160] if first else "")
            meta["ran"] = "selftest/seeded.py run: scratch worktree of /repo HEAD %s + patch; baseline tests; demo under 3.7-3.10 with/without; quick checks with VERIF_REPO" % \
                sh(["git", "-C", "/repo", "log", "--format=%h", "-1"]).stdout.decode().strip()
        json.dump(meta, open(os.path.join(d, "meta.json"), "w"), indent=1)
    finally:
        sh(["git", "-C", "/repo", "worktree", "remove", "--force", wt])
        shutil.rmtree(tmp, ignore_errors=True)
    return meta


def main():
    a = sys.argv[1:]
    if a and a[0] == "ingest":
        return ingest(a[1], a[2], a[3])
    if a and a[0] == "run":
        extra = []
        names = []
        i = 1
        while i < len(a):
            if a[i] == "--checks":
                extra = a[i + 1].split(",")
                i += 2
            else:
                names.append(a[i])
                i += 1
        if not names:
            names = sorted(os.path.basename(p) for p in glob.glob(os.path.join(SEEDED, "*")) if os.path.isdir(p))
        for n in names:
            run_one(n, extra)
        return
    if a and a[0] == "table":
        return table()
    print(__doc__)


def table():
    """Regenerate the table between the <!-- seeded-table --> markers of DESIGN.md from the meta.json files."""
    import re
    rows = ["| seeded change (sub-agent) | property | caught by (quick tier: monitor / clause) |", "|---|---|---|"]
    n = caught = hist = 0
    for d in sorted(glob.glob(os.path.join(SEEDED, "*"))):
        mp = os.path.join(d, "meta.json")
        if not os.path.exists(mp):
            continue
        m = json.load(open(mp))
        n += 1
        cell = []
        for c, r in sorted(m.get("checks", {}).items()):
            if r.get("caught"):
                mm = re.search(r"monitor=(\S+) clause=(.*?) interp=", r.get("first_report", ""))
                cell.append("%s: %s / %s" % (c, mm.group(1), mm.group(2)) if mm else "%s: caught" % c)
            else:
                cell.append("%s: **not caught** (exit %s)" % (c, r.get("exit")))
        if any(r.get("caught") for r in m.get("checks", {}).values()):
            caught += 1
        text = "; ".join(cell) or "(not evaluated)"
        if m.get("history"):
            hist += 1
            text += " — " + m["history"].replace("|", "/").replace("\n", " ")
        rows.append("| `%s` | %s | %s |" % (m["name"], m["property"], text))
    dp = os.path.join(VERIF, "DESIGN.md")
    s = open(dp).read()
    parts = s.split("<!-- seeded-table -->")
    assert len(parts) == 3, len(parts)
    s = parts[0] + "<!-- seeded-table -->\n" + "\n".join(rows) + "\n<!-- seeded-table -->" + parts[2]
    open(dp, "w").write(s)
    print("%d seeded changes, %d caught on the current tree, %d with a history note" % (n, caught, hist))


main()
