#!/usr/bin/python3
"""Orchestrator for the runtime-monitoring checks of python-code-data (see DESIGN.md).

  vcheck.py check <ID> [--tier quick|thorough]     exit 0 held / 1 violation / 2 inconclusive
  vcheck.py replay <replay.json>
  vcheck.py setup
Environment: VERIF_SEED (int, default 0), VERIF_TIER, VERIF_REPO (default /repo).
"""
import concurrent.futures
import glob
import importlib
import json
import os
import re
import shutil
import subprocess
import sys
import tempfile
import time

HERE = os.path.dirname(os.path.abspath(__file__))
HARNESS = os.path.join(HERE, "harness")
sys.path.insert(0, HARNESS)
sys.dont_write_bytecode = True

PYENV = "/root/.pyenv/versions"
PRODUCERS = ["3.7", "3.8", "3.9", "3.10"]
CONSUMERS = ["3.7", "3.8", "3.9", "3.10", "3.11", "3.12", "3.13"]
ALL_IDS = ["C%02d" % i for i in range(1, 17)]


def discover():
    found = {}
    for d in sorted(glob.glob(os.path.join(PYENV, "3.*"))):
        m = re.match(r"(3\.\d+)\.", os.path.basename(d))
        exe = os.path.join(d, "bin", "python3")
        if m and os.path.exists(exe):
            found[m.group(1)] = exe
    return found


class Ctx(object):
    def __init__(self, prop, tier, seed):
        self.prop = prop
        self.tier = tier
        self.seed = seed
        self.repo = os.path.abspath(os.environ.get("VERIF_REPO", "/repo"))
        self.interps = discover()
        self.producers = [v for v in PRODUCERS if v in self.interps]
        self.consumers = [v for v in CONSUMERS if v in self.interps]
        self.ncpu = os.cpu_count() or 4
        self.tmp = None
        self.t0 = time.time()
        self.notes = []

    def stdlib_dir(self, v):
        return os.path.join(os.path.dirname(os.path.dirname(self.interps[v])), "lib", "python" + v)

    def env(self):
        e = {
            "PATH": "/usr/bin:/bin",
            "PYTHONPATH": os.pathsep.join([self.repo, os.path.join(HARNESS, "shim"), HARNESS]),
            "PYTHONDONTWRITEBYTECODE": "1",
            "PYTHONHASHSEED": "0",
            "PYTHONIOENCODING": "utf-8",
            "VERIF_REPO": self.repo,
            "VERIF_SEED": str(self.seed),
            "VERIF_TIER": self.tier,
            "HOME": self.tmp or "/var/tmp",
            "TMPDIR": self.tmp or "/var/tmp",
            "LC_ALL": "C.UTF-8",
        }
        return e


def run_shard(ctx, idx, shard, timeout):
    v = shard["interp"]
    spath = os.path.join(ctx.tmp, "shard%d.json" % idx)
    opath = os.path.join(ctx.tmp, "out%d.jsonl" % idx)
    with open(spath, "w") as f:
        json.dump(shard, f)
    flags = list(shard.get("pyflags", [])) + os.environ.get("VERIF_PYFLAGS", "").split()
    cmd = [ctx.interps[v], "-X", "faulthandler"] + flags + [os.path.join(HARNESS, "worker.py"), ctx.prop, spath, opath]
    env = ctx.env()
    # string hashing is part of the configuration space: shards run under different (deterministic) hash seeds
    env["PYTHONHASHSEED"] = str((ctx.seed + idx) % 7)
    t = time.time()
    status = "ok"
    try:
        p = subprocess.run(cmd, env=env, cwd=ctx.tmp, stdout=subprocess.PIPE, stderr=subprocess.PIPE,
                           timeout=timeout)
        if p.returncode != 0:
            status = "exit%d" % p.returncode
        err = p.stderr.decode("utf-8", "replace")[-3000:]
    except subprocess.TimeoutExpired as e:
        status = "timeout"
        err = (e.stderr or b"").decode("utf-8", "replace")[-1000:]
    recs = []
    if os.path.exists(opath):
        with open(opath) as f:
            for line in f:
                try:
                    recs.append(json.loads(line))
                except ValueError:
                    pass
    return {"idx": idx, "interp": v, "status": status, "stderr": err, "records": recs,
            "wall": time.time() - t, "label": shard.get("label", "")}


def o_twins(ctx, mod, shards):
    """The interpreter's own mode is part of the configuration space: per interpreter one of the planned shards
    (a different slice for each interpreter and seed) is run a second time under `python -O -b` / `-OO -b`: assert
    statements of the library are compiled away and a str/bytes comparison inside the library is an error (as under
    `python -bb`; the worker installs the filter for the library's modules only).  Purely additive: the plain shard still runs."""
    if not getattr(mod, "O_TWIN", True):
        return []
    by = {}
    for s in shards:
        if not s.get("pyflags") and not s.get("no_twin"):
            by.setdefault(s["interp"], []).append(s)
    out = []
    for n, v in enumerate(sorted(by)):
        if v not in PRODUCERS:
            continue
        lst = by[v]
        t = json.loads(json.dumps(lst[(ctx.seed + n) % len(lst)]))
        t["pyflags"] = (["-O"] if (ctx.seed + n) % 3 else ["-OO"]) + ["-b"]
        t["vendored"] = True
        t["storm"] = True
        t["label"] = t.get("label", "") + ":" + "".join(t["pyflags"]) + ":vendored"
        out.append(t)
    return out


def _mode(shard):
    return " ".join(shard.get("pyflags", []) + (["vendored-copy"] if shard.get("vendored") else []) + (["fault-storm"] if shard.get("storm") else []))


def load_known(prop):
    known, fixed = {}, []
    p = os.path.join(HERE, "known_findings.txt")
    if os.path.exists(p):
        for line in open(p):
            line = line.strip()
            m = re.match(r"known:\s+property=(\S+)\s+key=(\S+)\s+(.*)", line)
            if m and m.group(1) == prop:
                known[m.group(2)] = m.group(3)
            m = re.match(r"fixed:\s+property=(\S+)\s+(.*)", line)
            if m and m.group(1) == prop:
                fixed.append(m.group(2))
    return known, fixed


def check(prop, tier, seed, replay_shard=None):
    ctx = Ctx(prop, tier, seed)
    mod = importlib.import_module("props." + prop.lower())
    ctx.tmp = tempfile.mkdtemp(prefix="vcheck-%s-" % prop)
    try:
        return _check(ctx, mod, replay_shard)
    finally:
        shutil.rmtree(ctx.tmp, ignore_errors=True)


def _check(ctx, mod, replay_shard):
    prop = ctx.prop
    missing = [v for v in PRODUCERS if v not in ctx.interps]
    if replay_shard is not None:
        shards = [replay_shard]
    else:
        shards = mod.plan(ctx)
        shards = shards + o_twins(ctx, mod, shards)
    timeout = getattr(mod, "TIMEOUT", {"quick": 900, "thorough": 5400})[ctx.tier]
    results = []
    with concurrent.futures.ThreadPoolExecutor(max_workers=ctx.ncpu) as ex:
        futs = [ex.submit(run_shard, ctx, i, s, timeout) for i, s in enumerate(shards)]
        for f in futs:
            results.append(f.result())

    viols, inconcl, worker_problems = [], [], []
    counters, features, distinct, samples = {}, {}, set(), []
    per_interp_counters = {}
    viol_totals = {}
    slow_cases = []
    for r in results:
        got_summary = False
        for rec in r["records"]:
            t = rec.get("t")
            if t == "slow_cases":
                slow_cases.extend(rec["cases"])
            elif t == "viol":
                viols.append(rec)
            elif t == "inconclusive":
                inconcl.append(rec)
            elif t == "summary":
                got_summary = True
                pic = per_interp_counters.setdefault(r["interp"], {})
                for k, v in rec["counters"].items():
                    counters[k] = counters.get(k, 0) + v
                    pic[k] = pic.get(k, 0) + v
                for k, v in rec["features"].items():
                    features[k] = features.get(k, 0) + v
                distinct.update(rec["distinct"])
                for s in rec["samples"]:
                    if len(samples) < 8:
                        samples.append(s)
                for k, v in rec.get("viol_totals", []):
                    kk = "|".join(k)
                    viol_totals[kk] = viol_totals.get(kk, 0) + v
        if r["status"] != "ok" or not got_summary:
            worker_problems.append({"shard": r["idx"], "interp": r["interp"], "status": r["status"],
                                    "label": r["label"], "stderr": r["stderr"][-1500:]})

    extra = {}
    if hasattr(mod, "offline") and (replay_shard is None or getattr(mod, "OFFLINE_IN_REPLAY", False)):
        off = mod.offline(ctx, results) or {}
        viols.extend(off.get("viols", []))
        inconcl.extend(off.get("inconclusive", []))
        for k, v in off.get("counters", {}).items():
            counters[k] = counters.get(k, 0) + v
        distinct.update(off.get("distinct", []))
        for s in off.get("samples", []):
            if len(samples) < 10:
                samples.append(s)
        extra = off.get("extra", {})
        for v_, pic_ in off.get("per_interp", {}).items():
            pic = per_interp_counters.setdefault(v_, {})
            for k, n in pic_.items():
                pic[k] = pic.get(k, 0) + n
                counters[k] = counters.get(k, 0) + n
        worker_problems.extend(off.get("worker_problems", []))

    # classify against known findings (by mechanism key computed by the monitor)
    known, fixed = load_known(prop)
    new_viols, known_hits = [], {}
    for v in viols:
        mech = v.get("mech")
        if mech and mech in known:
            known_hits.setdefault(mech, []).append(v)
        else:
            new_viols.append(v)

    # deciding monitors must have been evaluated on every interpreter that ran
    deciding = getattr(mod, "DECIDING", [])
    unreached = []
    if replay_shard is None:
        need_interps = getattr(mod, "NEED_INTERPS", None)
        if need_interps is None:
            need_interps = ctx.producers
        for v in need_interps:
            pic = per_interp_counters.get(v, {})
            for d in deciding:
                if pic.get(d, 0) <= 0:
                    unreached.append("%s@%s" % (d, v))

    wall = time.time() - ctx.t0
    rdir = os.environ.get("VERIF_REPLAY_DIR") or os.path.join(HERE, "replays")
    os.makedirs(os.path.join(rdir, prop), exist_ok=True)
    replay_paths = []
    for n, v in enumerate(new_viols[:20]):
        rp = os.path.join(os.path.relpath(rdir, HERE), prop, "%s-seed%d-%d.json" % (ctx.tier, ctx.seed, n))
        with open(os.path.join(HERE, rp), "w") as f:
            json.dump(v, f, indent=1, default=repr)
        replay_paths.append(rp)

    verdict = "held"
    if new_viols:
        verdict = "violated"
    elif missing or unreached or (worker_problems and not counters) or \
            (replay_shard is None and len(worker_problems) > len(results) // 2):
        verdict = "inconclusive"

    if replay_shard is None:
        ev = {
            "property_id": prop, "tier": ctx.tier, "seed": ctx.seed, "level": "exploration",
            "coverage": {
                "evaluations": int(counters.get(getattr(mod, "EVAL_COUNTER", "evaluations"), 0)),
                "distinct_nontrivial": len(distinct) + int(counters.get("distinct_by_construction", 0)),
                "rule": getattr(mod, "RULE", ""),
                "samples": samples or ["(none recorded)"],
                "interpreters": sorted(per_interp_counters),
                "monitors_per_interpreter": {
                    v: {k: c for k, c in sorted(pic.items()) if k.startswith(("calls:", "checks:", "eval"))}
                    for v, pic in sorted(per_interp_counters.items())},
                "counters": {k: counters[k] for k in sorted(counters)},
                "features": {k: features[k] for k in sorted(features)},
                "shards": len(results),
                "shards_by_interpreter_mode": {m or "default": sum(1 for s_ in shards if _mode(s_) == m) for m in sorted(set(_mode(s_) for s_ in shards))},
                "slowest_cases_s": sorted(slow_cases, reverse=True)[:6],
                "shard_wall_s_max": round(max([r["wall"] for r in results] or [0]), 1),
                "shard_wall_s_sum": round(sum(r["wall"] for r in results), 1),
                "worker_problems": worker_problems[:10],
                "inconclusive_cases": len(inconcl),
                "unreached_deciding_monitors": unreached,
                "known_findings_matched": {k: len(v) for k, v in known_hits.items()},
                "violation_totals_by_monitor_clause_mechanism": viol_totals,
                "verdict": verdict,
            },
            "assumptions": getattr(mod, "ASSUMPTIONS", []) + ctx.notes,
            "wall_s": round(wall, 2),
            "violations": len(new_viols),
        }
        ev["coverage"].update(extra)
        if getattr(mod, "EXHAUSTIVE", None):
            ev["coverage"]["exhaustive"] = True
            ev["coverage"]["exhaustive_scope"] = mod.EXHAUSTIVE
        evdir = os.environ.get("VERIF_EVIDENCE_DIR") or os.path.join(HERE, "evidence")
        os.makedirs(evdir, exist_ok=True)
        tmp = os.path.join(evdir, prop + ".json.tmp")
        with open(tmp, "w") as f:
            json.dump(ev, f, indent=1, default=repr)
        os.replace(tmp, os.path.join(evdir, prop + ".json"))

    print("%s tier=%s seed=%d interpreters=%s shards=%d evaluations=%d distinct_nontrivial=%d wall=%.1fs" % (
        prop, ctx.tier, ctx.seed, ",".join(sorted(per_interp_counters)), len(results),
        counters.get(getattr(mod, "EVAL_COUNTER", "evaluations"), 0),
        len(distinct) + int(counters.get("distinct_by_construction", 0)), wall))
    for k in sorted(counters):
        if k.startswith(("calls:", "checks:")):
            print("  monitor %-40s %d" % (k, counters[k]))
    if counters.get("monitor_errors"):
        print("  WARNING: %d monitor error(s) (faults of the harness, recorded in the evidence; the affected evaluations were not judged)" % counters["monitor_errors"])
    for wp in worker_problems[:5]:
        print("  worker problem: shard %(shard)s interp %(interp)s status %(status)s %(label)s" % wp)
        if wp["stderr"]:
            print("    " + wp["stderr"].strip().replace("\n", "\n    ")[-800:])
    for mech, hits in sorted(known_hits.items()):
        print("KNOWN-FINDING: property=%s %s -- %s (%d observation(s) this run, e.g. %s on %s)" % (
            prop, mech, known[mech], len(hits), _case_id(hits[0]), hits[0].get("interp")))
    for v, rp in zip(new_viols, replay_paths):
        print("VIOLATION property=%s replay=%s" % (prop, rp))
        print("   monitor=%s clause=%s interp=%s case=%s mech=%s" % (
            v.get("monitor"), v.get("clause"), v.get("interp"), _case_id(v), v.get("mech")))
        print("   " + str(v.get("detail"))[:600].replace("\n", "\n   "))
    if len(new_viols) > len(replay_paths):
        print("  (+%d more violations not written)" % (len(new_viols) - len(replay_paths)))
    if verdict == "violated":
        return 1
    if verdict == "inconclusive":
        print("INCONCLUSIVE property=%s missing_interpreters=%s unreached=%s worker_problems=%d" % (
            prop, missing, unreached[:6], len(worker_problems)))
        return 2
    print("HELD property=%s on everything observed" % prop)
    return 0


def _case_id(v):
    c = v.get("case")
    if isinstance(c, dict):
        if "word" in c:
            return "word=%#x" % c["word"]
        if "alteration" in c:
            return "%s:%s" % (c.get("base"), c.get("alteration"))
        return c.get("id") or c.get("path") or c.get("k")
    return str(c)[:80]


def replay(path):
    v = json.load(open(path))
    prop = v["prop"]
    mod = importlib.import_module("props." + prop.lower())
    if v.get("monitor") == "import":
        shard = {"interp": v["interp"], "cases": [], "specs": [], "label": "replay", "tier": "quick", "seed": 0}
    elif hasattr(mod, "replay_shard"):
        shard = mod.replay_shard(v)
    else:
        shard = {"interp": v["interp"], "cases": [v["case"]], "label": "replay", "tier": "quick", "seed": 0}
    if isinstance(v.get("case"), dict) and isinstance(v["case"].get("partner_case"), dict) and isinstance(shard.get("cases"), list):
        # observed by the re-entrant / threaded stress: it needs a second input to interleave with
        shard["cases"] = [dict((k, x) for k, x in c.items() if k not in ("partner_case", "partner", "stress")) for c in shard["cases"]]
        shard["cases"].append(v["case"]["partner_case"])
    if isinstance(v.get("case"), dict) and v["case"].get("k") == "storm":
        shard["cases"] = []          # observed during the fault storm itself: the storm is the case
        shard["storm"] = True
    if v.get("pyflags") and not shard.get("pyflags"):
        # the violation was observed in an interpreter-mode twin (python -O / -b, library imported as a vendored copy)
        shard["pyflags"] = [f for f in v["pyflags"] if f.startswith("-")]
        if "vendored-copy" in v["pyflags"]:
            shard["vendored"] = True
            shard["storm"] = True
    rc = check(prop, "quick", int(os.environ.get("VERIF_SEED", "0")), replay_shard=shard)
    return rc


def setup():
    ok = True
    found = discover()
    for v in CONSUMERS:
        print("interpreter %s: %s" % (v, found.get(v, "MISSING")))
        if v in PRODUCERS and v not in found:
            ok = False
    for d in ("evidence", "replays"):
        os.makedirs(os.path.join(HERE, d), exist_ok=True)
    env = Ctx("C01", "quick", 0).env()
    for v in PRODUCERS:
        if v in found:
            p = subprocess.run([found[v], "-c", "import code_data, sys; print(sys.version_info[:3], code_data.__version__)"],
                               env=env, stdout=subprocess.PIPE, stderr=subprocess.STDOUT)
            print("  import code_data on %s: %s" % (v, p.stdout.decode().strip()[-200:]))
            ok = ok and p.returncode == 0
    return 0 if ok else 1


def main(argv):
    if len(argv) < 2:
        print(__doc__)
        return 64
    cmd = argv[1]
    if cmd == "setup":
        return setup()
    if cmd == "check":
        prop = argv[2]
        tier = os.environ.get("VERIF_TIER") or "quick"
        if "--tier" in argv:
            tier = argv[argv.index("--tier") + 1]
        seed = int(os.environ.get("VERIF_SEED") or 0)
        return check(prop, tier, seed)
    if cmd == "replay":
        return replay(argv[2])
    print(__doc__)
    return 64


if __name__ == "__main__":
    sys.exit(main(sys.argv))
