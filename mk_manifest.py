#!/usr/bin/python3
"""Regenerates MANIFEST.json from the table below (kept valid at all times)."""
import json, os
HERE = os.path.dirname(os.path.abspath(__file__))
props = [json.loads(l) for l in open(os.path.join(HERE, "properties.jsonl"))]
titles = {p["id"]: p["title"] for p in props}

# id -> (technique, level text, level note, design ref)
CLAIMED = {
 "C01": ("runtime post-condition monitor on to_code_data + strict bit-exact code-object comparison over compiled corpora on real 3.7-3.10 interpreters",
         "Every code object reached by the workloads (repo examples, interpreter stdlib, generated programs, boundary templates; compile modes and optimisation levels) is decoded and re-encoded by the real library under a monitor that compares every co_* attribute type- and bit-exactly. Held means: no difference on the code objects observed; nothing is claimed for programs outside the workloads.",
         "Trusts CPython's compile() and attribute readers of the four interpreters; the harness-side typing_extensions shim; corpus sampling is seeded.", "5/C01"),
}
checks = []
for pid in sorted(CLAIMED):
    tech, text, note, ref = CLAIMED[pid]
    checks.append({
        "property_id": pid,
        "quick_cmd": "/usr/bin/python3 vcheck.py check %s --tier quick" % pid,
        "thorough_cmd": "/usr/bin/python3 vcheck.py check %s --tier thorough" % pid,
        "evidence_file": "/verif/evidence/%s.json" % pid,
        "replay_cmd_template": "/usr/bin/python3 vcheck.py replay {path}",
        "engine": "vcheck",
        "level_claimed": {"category": "exploration", "text": text, "design_ref": "DESIGN.md section " + ref},
        "level_note": note,
        "technique": tech,
    })
na = [{"property_id": p["id"], "reason": "check not built yet in this revision (planned: runtime monitor per DESIGN.md section 5)"}
      for p in props if p["id"] not in CLAIMED]
m = {
 "version": 1,
 "setup_cmd": "/usr/bin/python3 vcheck.py setup",
 "hooks": {"guard": "CODE_DATA_VERIF", "enable": "no source hooks are needed: monitors wrap module globals and class attributes of code_data from the harness (PYTHONPATH=$VERIF_REPO, default /repo)",
           "baseline_off_cmd": "cd /repo && /venv/bin/python -m pytest -ra -q -p no:cacheprovider --timeout=900 --continue-on-collection-errors",
           "source_commits": [], "add_only": True},
 "engines": [{"name": "vcheck", "path": "/verif/vcheck.py", "serves_properties": sorted(CLAIMED),
              "kind_free_text": "orchestrator that runs stdlib-only monitor workers under the real CPython 3.7-3.10 interpreters (and 3.11-3.13 as JSON consumers) against /repo's working tree"}],
 "checks": checks,
 "not_applicable": na,
 "notes": "Runtime monitoring only. Verdicts are three-valued: exit 0 held on what was observed, exit 1 VIOLATION with replay file, exit 2 inconclusive (deciding monitor unreached / interpreter missing). Known findings: /verif/known_findings.txt.",
}
json.dump(m, open(os.path.join(HERE, "MANIFEST.json"), "w"), indent=1)
print("claimed", sorted(CLAIMED), "n/a", [x["property_id"] for x in na])
