#!/usr/bin/python3
"""Regenerates MANIFEST.json from the table below (kept valid at all times)."""
import json, os
HERE = os.path.dirname(os.path.abspath(__file__))
props = [json.loads(l) for l in open(os.path.join(HERE, "properties.jsonl"))]
titles = {p["id"]: p["title"] for p in props}

# id -> (technique, level text, level note, design ref)
CLAIMED = {
 "C01": ("runtime post-condition monitor on to_code_data + strict bit-exact code-object comparison over compiled corpora on real 3.7-3.10 interpreters",
         "Every code object reached by the workloads (repo examples, interpreter stdlib, generated programs incl. closure nests, the same programs re-lined through the AST, boundary templates, eval/single fragments, twin sequences decoded one after the other in one process, odd file names; compile modes and optimisation levels) is decoded and re-encoded by the real library under a monitor that compares every co_* attribute type- and bit-exactly. Held means: no difference on the code objects observed; nothing is claimed for programs outside the workloads.",
         "Trusts CPython's compile() and attribute readers of the four interpreters; the harness-side typing_extensions shim; corpus sampling is seeded.", "5/C01"),
 "C02": ("runtime post-condition monitor on every to_code_data call, compared with CPython's own readers (dis.get_instructions, PyCode_Addr2Line, co_lines)",
         "Every decoded code object at every nesting level is compared instruction by instruction with the same interpreter's disassembler (opname, operand class and value, jump kind and target block) and line reader. The encoder is never involved, so a shared encoder/decoder error cannot hide. Held = no disagreement on the instructions observed.",
         "Trusts dis, PyCode_Addr2Line and co_lines as the reference reading; oparg wrap at INT_MAX modelled as in the eval loop.", "5/C02"),
 "C03": ("post-condition monitor on every from_code_data call reading the emitted code back with CPython's own readers (dis, PyCode_Addr2Line, _PyCode_ConstantKey), logical step counter on _instrsize bounding the encoder's relaxation loop, and decode-again comparison; workloads: hand-built well-formed graphs (W5) and edited decoded data (W6)",
         "W5: seeded generator of well-formed CodeData without private overrides (opcodes and operand kinds from the interpreter's dis tables; block counts/sizes straddling the 1/2/3-unit operand boundaries incl. 32k/65k-instruction blocks; absolute jumps both directions, forward relative jumps; tables up to 70 000 entries; lines incl. None and +-boundary deltas; all Args shapes; CPython-distinct constant families; canonical and non-canonical partitions). W6: decoded real code + edit (NOP runs up to 70 000 before a jump target, duplicate/drop instruction, drop additional args, shift/collide overrides incl. ==-equal but distinct constants, retarget jump, clear lines, append block). Every emitted code object must read back as the data says (operands inside their tables resolving to the named values, jumps on the first prefix of the target block, line per instruction, header); raising is accepted only for edits that can make overrides inconsistent; termination is a logical step budget, never wall-clock.",
         "None lines on <=3.9 are accepted as 'inherits the previous line'; the generator never emits opcodes/operands dis cannot render.", "5/C03"),
 "C04": ("runtime post-condition monitor on every to_code_data call; reference = CPython's argument binder (calling a stub with the same header), inspect.signature, __doc__, inspect.is*function; exhaustive signature-shape sweep",
         "For every function-like code object the decoded Args are used to *call* a stub with the same header (positive calls must bind each marker to the right slot, forbidden calls must raise TypeError), and compared with inspect.signature, __doc__ and inspect's kind predicates; non-function code must decode with type None. The signature shapes (0..2/0..3 of each parameter kind x */** x 7 scope kinds x 7 docstring shapes) are enumerated exhaustively in addition to the corpora.",
         "Trusts CPython's binder and inspect; the stub reproduces only the header of the code object.", "5/C04"),
 "C09": ("invariant hook on ToArgs.found_index + post-condition on every to_code_data call with first-use ranks from dis and removal experiments through the real encoder",
         "Every override in decoded data is compared with the entry's first-use rank recomputed from dis; an override sitting at its rank is only accepted if removing it from all uses makes the real encoder produce a different code object (or fail); additional args must be exactly the unreferenced table entries.",
         "At most 24 removal experiments per code object; ranks use the property's seeding rule (parameters, docstring first).", "5/C09"),
 "C05": ("post-condition monitor on the outermost to_code_data call (normalize + real to_code, then symbolic dis/Addr2Line stream, header and line-event-window comparison, recursively) + behavioural oracle: generated programs executed (original and normalized) in a child process under sys.settrace",
         "Static: every code object of the workloads: same opnames, same resolved operands (names, locals, cell/free names, type- and bit-exact constants, nested code paired by instruction order), same jump structure (target instruction index, kind), same line per instruction, same header (signature, __doc__ slot, freevars, name, filename, first line, stacksize, flags modulo NESTED/NOFREE), cell variables only removed, NOFREE only gained when a cell vanished, same line-event windows (CPython's own _PyCode_CheckLineNumber on 3.7-3.9, merged co_lines on 3.10). Behavioural: stdout, exception and the full (code name, event, line) trace of generated terminating programs agree.",
         "Window differences at unreachable instructions are counted, not judged; executed programs are the generator's own; 30 s watchdog => inconclusive.", "5/C05"),
 "C06": ("API-boundary history monitor walking the exhaustive tree of histories over {code round trip, JSON round trip, normalize} + independently constructed serialization variants (own re-assembler) whose normal forms must coincide",
         "Histories: every sequence over {C, J, N} up to length 3 (quick) / 4 (thorough) plus random histories up to length 12; after every step normalize(x) must equal the base normal form (==, hash, canonical JSON) and be idempotent. Variants: for every code object, harness-built variants (tables permuted with operands renumbered, unreferenced padding entries in all four tables, CO_NESTED toggled, redundant EXTENDED_ARG prefixes on jumps with full re-layout and a regenerated line table) are first checked to be faithful by an independent symbolic reading, then must normalize to equal data.",
         "Variants never move a function's constant 0 or the parameter prefix; unfaithful variants (harness bugs) are discarded and counted.", "5/C06"),
 "C07": ("runtime post-condition monitor on code_data_to_json (strict-JSON walk + in-process schema validation), real json text cycle, and offline validation of every recorded document by jsonschema (Draft 7 + 2020-12), fastjsonschema and an orjson cycle",
         "Every decoded and normalized CodeData of the workloads (corpus programs plus W9: constants over type x nesting x edge values planted as operands, unreferenced constants, docstring, filename, name, global/local/cell/free variable names) is serialized under the monitor, dumped with allow_nan=False as ASCII and UTF-8 text, parsed, loaded and compared (==, NaN-identifying strict code comparison); all documents are re-validated offline by three independent JSON/schema implementations.",
         "Trusts json/orjson/jsonschema/fastjsonschema; ints bounded at 4000 digits; jsonschema (slow) only sees documents below a size cap, fastjsonschema and the in-process validator see all.", "5/C07"),
 "C08": ("pool monitor over values produced by different routes (decode, decode of an identity-fresh marshal clone, JSON load, deepcopy, normalize, hand construction) checking the algebraic laws of ==/hash pairwise and Constant equality against ctypes _PyCode_ConstantKey",
         "All pairs within buckets: symmetry, != consistency, a==b => hash equal, set/dict lookup, transitivity over the CPython-distinct families, Constant equality == CPython's constant partition with NaNs identified, equal CodeData => identical to_code(), identical code => equal decoded data, frozen-ness probes (setattr/delattr/new attribute must raise; only immutable containers reachable).",
         "Reference partition for NaN-containing values is an own structural comparison (the exception stated by the property); pair buckets are bounded.", "5/C08"),
 "C10": ("wrappers on to_line_mapping / from_line_mapping + driver over model-emitted tables (ports of CPython's assemblers incl. the peephole lnotab fix-up) and every table in compiled code; reference for decoding = PyCode_Addr2Line / co_lines",
         "Decode direction: every code-unit offset of every table is compared with CPython's own reader (valid for any byte table). Encode direction: byte equality of from_line_mapping(to_line_mapping(c)) for compiler-emitted tables (W1-W4) and model-emitted tables (deltas around 127/128/254/255/multiples, gaps, zero-width entries, mixed signs, no-line runs of 1..512 units); model fidelity is measured on each run by regenerating the real tables. Model tables also go through the whole from_code -> to_code pipeline on 1-unit NOP bytecode. Compiler-emitted hostile tables come from generated programs re-lined through the AST and, on 3.10, from the AST recipe that makes the real assembler emit no-line runs longer than one entry.",
         "Assembler models are generators only; a model-emitted failure is labelled as such in the witness.", "5/C10"),
 "C11": ("runtime post-condition monitors on to_flags_data (all subsets of the 18 CPython-defined flags; unknown bits alone, mixed, and after IntFlag materialisation) and on to_code_data for hand-altered headers",
         "Flag words: every subset of the interpreter's 18 named flags is pushed through to_flags_data under a monitor requiring exact re-encoding and no exception (exhaustive on every interpreter in the thorough tier; in the quick tier exhaustive on 3.9/3.10 and every 8th subset on 3.7/3.8 where enum._decompose is quadratic); words with an unknown bit must raise or re-encode exactly. Headers: ~40 base code objects x (each of 32 flag bits toggled, flag pairs, argument counts and nlocals +-1/+2): from_code must raise or return data whose to_code() reproduces every header field.",
         "Known flags are taken from dis.COMPILER_FLAG_NAMES and __future__ of the running interpreter, not from the library's enum; headers CPython refuses to construct are skipped.", "5/C11"),
 "C12": ("pre/post snapshot monitors on the five API methods + history driver that repeats and interleaves calls on shared arguments and clobbers returned/consumed JSON documents in place",
         "Every monitored call compares a deep type-exact snapshot of its argument before and after; the driver applies shuffled histories over {decode, encode, normalize, to_json, from_json on the same parsed document, encode/to_json of the normal form}, compares the 1st with the n-th result, mutates every list/dict of returned and of consumed documents and re-fingerprints the CodeData.",
         "Code objects are immutable from Python and only snapshotted at depth 0. Argument snapshots are type-exact structural fingerprints (a list replaced by a tuple is seen). A JSON-only consumer phase repeats the histories on 3.11-3.13 (hosts that cannot build the code objects) over the producers' documents.", "5/C12"),
 "C13": ("runtime post-condition monitor on every to_code_data call; jump-target set recomputed from dis only",
         "For every decoded code object: no empty block, concatenation equals the dis instruction sequence, jump targets in range, block start offsets == {0} + jump targets (exact set equality), every later block targeted by a decoded jump.",
         "Trusts dis for jump targets.", "5/C13"),
 "C14": ("runtime post-condition monitor on the outermost to_code_data call; reference enumeration = recursive co_consts walk with an independent decode of each child",
         "list(cd) and list(cd.all_code_data()) are compared (count, self first, multiset equality by ==) with an independent recursive walk of co_consts; workloads emphasise dead nested defs/classes/lambdas that stay in co_consts unreferenced and constants loaded twice.",
         "Order beyond 'self first' is not judged.", "5/C14"),
 "C15": ("offline checker over recorded logs: producer workers (3.7-3.10) record documents and their own normal forms, consumer workers on every interpreter present (3.7-3.13) load, re-serialize, normalize and hash them; the orchestrator joins by (producer, id) and compares canonical dumps",
         "Every recorded document is consumed under all seven interpreters, including 3.11-3.13 hosts that cannot build the code object: from_json_data and hash() must succeed, to_json_data must reproduce the recorded document and normalize().to_json_data() must equal the producer's own normal form (frozenset element order normalised).",
         "Consumers 3.11+ exercise only the JSON half of the API; documents come from decoded W1/W3/W4/W9 data.", "5/C15"),
 "C16": ("offline parse of the real CLI's stdout and exit status (one subprocess per invocation under each of 3.7-3.10, plain-print fallback) compared with the in-process API result for the same program",
         "Invocation matrix: the 0-source and every 2/3/4-source combination (incl. falsy-but-present sources) must exit 2 with empty stdout; every single source (file, -c, -e, -m; incl. the empty program) x seeded subsets of {--json, --no-normalize, --dis, --dis-after, --source} must exit 0, print repr(api result) (normalized unless --no-normalize), a JSON document that loads back to it, the program text, dis of the compiled program, dis of api_result.to_code(), and --dis-after must show the same instructions as --dis for every code object present in both. Programs include text-level hazards (whitespace-only lines in strings, tabs, continuation lines, non-ASCII) through -c / file / -e and program files given as raw bytes (UTF-8 BOM, PEP 263 cookies, CRLF/CR line ends).",
         "Textual comparison under the same PYTHONHASHSEED; eval() of the printed line only excuses; unparseable output is inconclusive.", "5/C16"),
}
COMMON = (" Every workload also runs, per interpreter, in one interpreter-mode twin shard: python -O/-OO -b, warnings issued from the library's "
          "modules are errors, the library imported as a vendored copy (vnd_pkg.code_data) next to a top-level one, and the shard's cases run after a burst of ~10 000 calls the library rejects (fault storm: failure atomicity); workers run under varied "
          "PYTHONHASHSEED values; corpora include code objects whose identifiers/texts were rewritten through the AST and whose constants are "
          "look-alikes of other constants' keys (DESIGN.md section 13a).")
EXTRA = {
 "C01": ("", ""),
 "C02": (" + re-entrant / multi-threaded stress of from_code compared with the sequential results (stress.py)", " The same decodes are repeated re-entrantly (trace hook starting another decode inside a library frame) and from three threads; instruction projections must equal the sequential ones."),
 "C04": (" + re-entrant / multi-threaded stress (types projection)", ""),
 "C05": (" + stack-starved calls (60..700 frames left) compared with the unstarved result", " Nested look-alike constant twins are normalized and re-encoded with little stack left: RecursionError is accepted, a returned code object must equal the unstarved one."),
 "C07": (" + documents reloaded after a transit through another serializer (members sorted / reversed / pretty-printed)", ""),
 "C09": (" + re-entrant / multi-threaded stress (whole decoded data)", ""),
 "C10": (" + re-entrant / multi-threaded stress of the codec on real tables", ""),
 "C11": (" + words outside 0..2^32-1 (negative, wider than the field)", ""),
 "C12": (" + fingerprint of interpreter-wide state (recursion limit, int digit limit, sys.path, warning filters, cwd, switch interval, environ, trace function, dis.opmap/opname/has* tables, the library's own module globals) around every top-level call + re-entrant / multi-threaded stress of all five API functions + decodes of code objects holding an undefined opcode",
         " Interleaving is also literal: the five API functions run re-entrantly and from three threads at a 1 microsecond switch interval and must return the sequential results; the process state listed in the technique must be identical before and after every top-level call (first-use imports of the library's own submodules excepted)."),
 "C13": (" + re-entrant / multi-threaded stress (block-partition projection)", ""),
 "C14": (" + the same value held as a subclass instance, SubClass.from_code, dataclasses.replace, copy, deepcopy and the JSON-loaded twin", ""),
 "C15": (" + every consumer also loads each document after a transit (members sorted / reversed / pretty-printed)", ""),
 "C16": (" + -e expression shapes (linesep inside nested scopes), programs and relative file names beginning with @ + ~ # = %, the command run in the worker's interpreter mode", ""),
}
checks = []
for pid in sorted(CLAIMED):
    tech, text, note, ref = CLAIMED[pid]
    tech = tech + EXTRA.get(pid, ("", ""))[0]
    text = text + EXTRA.get(pid, ("", ""))[1] + COMMON
    checks.append({
        "property_id": pid,
        "quick_cmd": "/usr/bin/python3 vcheck.py check %s --tier quick" % pid,
        "thorough_cmd": "/usr/bin/python3 vcheck.py check %s --tier thorough" % pid,
        "evidence_file": "/verif/evidence/%s.json" % pid,
        "replay_cmd_template": "/usr/bin/python3 vcheck.py replay {path}",
        "engine": "vcheck",
        "level_claimed": {"category": "exploration", "text": text, "design_ref": "DESIGN.md section " + ref},
        "level_note": note,
        "technique": tech,
    })
na = [{"property_id": p["id"], "reason": "check not built yet in this revision (planned: runtime monitor per DESIGN.md section 5)"}
      for p in props if p["id"] not in CLAIMED]
m = {
 "version": 1,
 "setup_cmd": "/usr/bin/python3 vcheck.py setup",
 "hooks": {"guard": "CODE_DATA_VERIF", "enable": "no source hooks are needed: monitors wrap module globals and class attributes of code_data from the harness (PYTHONPATH=$VERIF_REPO, default /repo)",
           "baseline_off_cmd": "cd /repo && /venv/bin/python -m pytest -ra -q -p no:cacheprovider --timeout=900 --continue-on-collection-errors",
           "source_commits": [], "add_only": True},
 "engines": [{"name": "vcheck", "path": "/verif/vcheck.py", "serves_properties": sorted(CLAIMED),
              "kind_free_text": "orchestrator that runs stdlib-only monitor workers under the real CPython 3.7-3.10 interpreters (and 3.11-3.13 as JSON consumers) against /repo's working tree"}],
 "checks": checks,
 "not_applicable": na,
 "notes": "Runtime monitoring only. Verdicts are three-valued: exit 0 held on what was observed, exit 1 VIOLATION with replay file, exit 2 inconclusive (deciding monitor unreached / interpreter missing). Known findings: /verif/known_findings.txt.",
}
json.dump(m, open(os.path.join(HERE, "MANIFEST.json"), "w"), indent=1)
print("claimed", sorted(CLAIMED), "n/a", [x["property_id"] for x in na])
